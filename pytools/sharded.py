"""Run a harness property in N worker processes (shards) and merge their partial evidence.

Each worker gets --shard k --of N --out <part> --journal <journal>. A worker that dies (signal, abort,
stack overflow) is attributed to the last case it started (journal) and reported as a violation with
signature `process-death/...`; a worker that exceeds the watchdog is killed and reported as
INCONCLUSIVE (never as a violation)."""
import json
import os
import subprocess
import time
from concurrent.futures import ThreadPoolExecutor


def merge_dict(a, b):
    for k, v in b.items():
        if isinstance(v, (int, float)) and isinstance(a.get(k, 0), (int, float)):
            a[k] = a.get(k, 0) + v
        elif k not in a:
            a[k] = v
    return a


def run_sharded(ck, pid, binary, common, nshards, watchdog_s, env=None, workdir=None):
    t0 = time.time()
    verif = ck.VERIF
    tmp = os.path.join(verif, "evidence", ".parts-%s" % pid)
    os.makedirs(tmp, exist_ok=True)
    for f in os.listdir(tmp):
        os.remove(os.path.join(tmp, f))

    def one(k):
        part = os.path.join(tmp, "part-%d.json" % k)
        journal = os.path.join(tmp, "journal-%d.txt" % k)
        args = [binary] + common + ["--shard", str(k), "--of", str(nshards), "--out", part, "--journal", journal]
        e = dict(ck.ENV)
        if env:
            e.update(env)
        try:
            r = subprocess.run(args, env=e, stdout=subprocess.PIPE, stderr=subprocess.PIPE, text=True, timeout=watchdog_s)
            return k, r.returncode, r.stdout, r.stderr, False
        except subprocess.TimeoutExpired as ex:
            out = ex.stdout.decode() if isinstance(ex.stdout, bytes) else (ex.stdout or "")
            return k, None, out, "", True

    with ThreadPoolExecutor(max_workers=min(nshards, 16)) as ex:
        results = list(ex.map(one, range(nshards)))

    merged = None
    violations = 0
    inconclusive = False
    known_lines = set()
    death_reports = []
    for k, rc, out, err, timed_out in results:
        for line in out.splitlines():
            if line.startswith("KNOWN-FINDING:"):
                if line not in known_lines:
                    known_lines.add(line)
                    print(line)
            elif line.startswith("VIOLATION") or line.startswith("  signature:") or line.startswith("INCONCLUSIVE"):
                print(line)
        part = os.path.join(tmp, "part-%d.json" % k)
        journal = os.path.join(tmp, "journal-%d.txt" % k)
        last = None
        if os.path.exists(journal):
            started = None
            for line in open(journal, errors="replace"):
                if line.startswith("START "):
                    started = line[6:].strip()
                elif line.startswith("END "):
                    started = None
            last = started
        if timed_out:
            print("INCONCLUSIVE property=%s shard %d exceeded the watchdog (%ds); last started case: %s" % (pid, k, watchdog_s, last))
            inconclusive = True
            continue
        if rc not in (0, 1, 2):
            death_reports.append({"shard": k, "status": rc, "last_started_case": last, "stderr_tail": err[-1500:]})
            continue
        if rc == 1:
            violations += 1
        if rc == 2:
            inconclusive = True
        if os.path.exists(part):
            ev = json.load(open(part))
            if merged is None:
                merged = ev
            else:
                c, d = merged["coverage"], ev["coverage"]
                for key in ("evaluations", "distinct_nontrivial"):
                    c[key] = c.get(key, 0) + d.get(key, 0)
                for key in ("observed", "inconclusive", "known_findings_matched"):
                    c[key] = merge_dict(c.get(key, {}), d.get(key, {}))
                c["samples"] = (c.get("samples", []) + d.get("samples", []))[:4]
                c["violation_signatures"] = sorted(set(c.get("violation_signatures", []) + d.get("violation_signatures", [])))
                if "exhaustive" in c or "exhaustive" in d:
                    c["exhaustive"] = bool(c.get("exhaustive", True) and d.get("exhaustive", True))
                for key, v in d.items():
                    if key not in c:
                        c[key] = v
                    elif isinstance(v, (int, float)) and key not in ("evaluations", "distinct_nontrivial", "observation_floor") and isinstance(c[key], (int, float)) and not isinstance(v, bool):
                        c[key] = c[key] + v
                    elif isinstance(v, dict) and key not in ("observed", "inconclusive", "known_findings_matched") and isinstance(c[key], dict):
                        for kk, vv in v.items():
                            c[key].setdefault(kk, vv)
                merged["violations"] = merged.get("violations", 0) + ev.get("violations", 0)
    if merged is None:
        print("INCONCLUSIVE property=%s no shard produced evidence" % pid)
        return 2, None, death_reports
    merged["coverage"]["shards"] = nshards
    merged["wall_s"] = round(time.time() - t0, 2)
    rc = 1 if violations else (2 if inconclusive else 0)
    return rc, merged, death_reports


def finish(ck, pid, opts, rc, merged, death_reports, floor=None, known_death=None):
    """Write evidence, report process deaths as violations (unless listed as known), apply the observation floor."""
    known_death = known_death or {}
    rdir = os.path.join(ck.VERIF, "replays")
    os.makedirs(rdir, exist_ok=True)
    n = 0
    for d in death_reports:
        if d["status"] in (-9, 137):
            # SIGKILL does not come from the program under test (out-of-memory killer, an operator): not a verdict
            print("INCONCLUSIVE property=%s worker %s was killed (SIGKILL, e.g. out of memory); last started case: %s" % (pid, d["shard"], d["last_started_case"]))
            merged["coverage"].setdefault("inconclusive", {})
            merged["coverage"]["inconclusive"]["worker-killed-SIGKILL"] = merged["coverage"]["inconclusive"].get("worker-killed-SIGKILL", 0) + 1
            if rc == 0:
                rc = 2
            continue
        sig = "process-death/status%s/%s" % (d["status"], (d["last_started_case"] or "unknown").split("#case")[0])
        if sig in known_death:
            print("KNOWN-FINDING: property=%s %s [%s]" % (pid, known_death[sig], sig))
            merged["coverage"].setdefault("known_findings_matched", {})[sig] = 1
            continue
        n += 1
        p = os.path.join(rdir, "%s-%s-s%s-death-%d.json" % (pid, opts["tier"], opts["seed"], n))
        json.dump({"property": pid, "signature": sig, "witness": d}, open(p, "w"), indent=1)
        print("VIOLATION property=%s replay=%s" % (pid, p))
        print("  signature: %s" % sig)
        merged["violations"] = merged.get("violations", 0) + 1
        rc = 1
    merged["coverage"]["worker_deaths"] = len(death_reports)
    if floor is not None and merged["coverage"].get("distinct_nontrivial", 0) < floor and rc == 0:
        print("INCONCLUSIVE property=%s observed only %d distinct non-trivial cases (floor %d)" % (pid, merged["coverage"].get("distinct_nontrivial", 0), floor))
        rc = 2
    json.dump(merged, open(os.path.join(ck.VERIF, "evidence", "%s.json" % pid), "w"), indent=1)
    c = merged["coverage"]
    print("SUMMARY property=%s tier=%s seed=%s evaluations=%d distinct_nontrivial=%d violations=%d shards=%d wall_s=%.1f" % (
        pid, opts["tier"], opts["seed"], c.get("evaluations", 0), c.get("distinct_nontrivial", 0), merged.get("violations", 0), c.get("shards", 1), merged["wall_s"]), flush=True)
    return rc

"""C15: fault enumeration under both story loaders (default build and --features stream), sharded."""
import json
import os
import sharded


def setup(ck):
    ck.build("debug", features=("stream",), quiet=False)
    ck.build("release", features=("stream",), quiet=False)


def run(ck, pid, opts, common):
    quick = opts["tier"] != "thorough"
    profile = "debug" if quick else "release"
    n = 8 if quick else 16
    b_default = ck.build(profile)
    b_stream = ck.build(profile, features=("stream",))
    rc1, ev1, d1 = sharded.run_sharded(ck, pid, b_default, common, n, 3600)
    if ev1 is None:
        return 2
    rc2, ev2, d2 = sharded.run_sharded(ck, pid, b_stream, common + ["--only-stories", "1"], n, 3600)
    if ev2 is None:
        return 2
    c, d = ev1["coverage"], ev2["coverage"]
    for key in ("evaluations", "distinct_nontrivial"):
        c[key] = c.get(key, 0) + d.get(key, 0)
    c["observed"] = {"default-loader": c.get("observed", {}), "stream-loader": d.get("observed", {})}
    c["known_findings_matched"] = sharded.merge_dict(c.get("known_findings_matched", {}), d.get("known_findings_matched", {}))
    c["violation_signatures"] = sorted(set(c.get("violation_signatures", []) + d.get("violation_signatures", [])))
    c["loader"] = "default + stream"
    c["samples"] = (c.get("samples", []) + d.get("samples", []))[:4]
    ev1["violations"] = ev1.get("violations", 0) + ev2.get("violations", 0)
    ev1["wall_s"] = round(ev1["wall_s"] + ev2["wall_s"], 2)
    rc = max(rc1, rc2) if 1 not in (rc1, rc2) else 1
    known = {}
    kf = os.path.join(ck.VERIF, "known_findings.json")
    for f in json.load(open(kf)).get("findings", []):
        if f["property"] == pid and f["signature"].startswith("process-death/"):
            known[f["signature"]] = f["what"]
    return sharded.finish(ck, pid, opts, rc, ev1, d1 + d2, floor=c.get("observation_floor"), known_death=known)

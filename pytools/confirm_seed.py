#!/usr/bin/env python3
"""confirm_seed.py <worktree> <n> <dest-id>
Independently confirms a seeded defect produced by a sub-agent in a scratch worktree:
 clean HEAD: demo passes; patch applied: full suite passes AND demo fails.
Then stores patch.diff, demo.rs, meta.json (with what was run) under /verif/seeded/<dest-id>/."""
import json, os, shutil, subprocess, sys, re
wt, n, dest = sys.argv[1], sys.argv[2], sys.argv[3]
pkg = sys.argv[4] if len(sys.argv) > 4 else "conformance-tests"
extra = sys.argv[5] if len(sys.argv) > 5 else ""
cargo_pkg = sys.argv[6] if len(sys.argv) > 6 else pkg
src = os.path.join(wt, "seeded-out", n)
env = dict(os.environ, CARGO_NET_OFFLINE="true")
def sh(cmd, **kw):
    return subprocess.run(cmd, shell=True, cwd=wt, env=env, stdout=subprocess.PIPE, stderr=subprocess.STDOUT, text=True, **kw)
meta = json.load(open(os.path.join(src, "meta.json")))
demo_test = "seeded_demo_%s" % n
demo_path = os.path.join(wt, pkg, "tests", demo_test + ".rs")
if not os.path.exists(demo_path):
    shutil.copy(os.path.join(src, "demo.rs"), demo_path)
demo_cmd = "cargo test -p %s --test %s --offline %s" % (cargo_pkg, demo_test, extra)
def passed(out):
    return re.search(r"test result: FAILED|error(\[E\d+\])?:|panicked", out) is None and "test result: ok" in out
log = {}
sh("git checkout -- . ")
r = sh(demo_cmd); log["demo_on_clean_head_passes"] = passed(r.stdout)
r = sh("git apply %s" % os.path.join(src, "patch.diff")); log["patch_applies"] = r.returncode == 0
# move other demo files aside so the suite is the original one
r = sh("cargo test --workspace --no-fail-fast --offline 2>&1 | grep -E '^test result' | grep -v 'seeded' ")
tot = sum(int(x) for x in re.findall(r"ok\. (\d+) passed", r.stdout)); fails = sum(int(x) for x in re.findall(r"(\d+) failed", r.stdout))
r2 = sh("cargo test --workspace --no-fail-fast --offline 2>&1 | grep -E 'Running|test result'")
# count failures outside the seeded demo tests
blocks = r2.stdout.split("Running")
orig_fail = 0; orig_pass = 0
for b in blocks:
    if "seeded_demo" in b: continue
    orig_pass += sum(int(x) for x in re.findall(r"(\d+) passed", b)); orig_fail += sum(int(x) for x in re.findall(r"(\d+) failed", b))
log["suite_with_patch"] = {"passed": orig_pass, "failed": orig_fail}
r = sh(demo_cmd); log["demo_with_patch_fails"] = not passed(r.stdout)
log["demo_failure_excerpt"] = "\n".join([l for l in r.stdout.splitlines() if "panicked" in l or "assert" in l or "left" in l or "right" in l][:6])
sh("git checkout -- . ")
r = sh(demo_cmd); log["demo_after_revert_passes"] = passed(r.stdout)
ok = log["demo_on_clean_head_passes"] and log["patch_applies"] and orig_fail == 0 and orig_pass >= 300 and log["demo_with_patch_fails"] and log["demo_after_revert_passes"]
log["confirmed"] = ok
print(json.dumps(log, indent=1))
if ok:
    d = os.path.join("/verif/seeded", dest)
    os.makedirs(d, exist_ok=True)
    shutil.copy(os.path.join(src, "patch.diff"), os.path.join(d, "patch.diff"))
    shutil.copy(os.path.join(src, "demo.rs"), os.path.join(d, "demo.rs"))
    meta["confirmed_by_me"] = log
    meta["what_i_ran"] = ["git apply patch.diff (scratch worktree)", "cargo test --workspace --no-fail-fast --offline (all original tests pass)", demo_cmd + " (fails with patch, passes without)"]
    meta["base_commit"] = sh("git rev-parse --short HEAD").stdout.strip()
    json.dump(meta, open(os.path.join(d, "meta.json"), "w"), indent=1)
sys.exit(0 if ok else 1)

"""C20: black-box monitor of the rinklecate process (stdout/stderr/exit status/output file) against the library."""
import json
import os
import shutil
import subprocess
import time
from concurrent.futures import ThreadPoolExecutor

KINDS = {"text", "tags", "choices", "needInput", "issues", "cmdOutput", "end", "close", "compile-success", "export-complete", "stats"}


def setup(ck):
    ck.build_cli("debug")


def decode_stream(s):
    """stdout of -j mode must be a concatenation of JSON objects (whitespace between them allowed)."""
    dec = json.JSONDecoder()
    i, out = 0, []
    n = len(s)
    while True:
        while i < n and s[i] in " \t\r\n":
            i += 1
        if i >= n:
            return out, None
        try:
            obj, j = dec.raw_decode(s, i)
        except json.JSONDecodeError as e:
            return out, "not JSON at offset %d: %s ... %r" % (i, e.msg, s[max(0, i - 40):i + 80])
        if not isinstance(obj, dict):
            return out, "top-level value is not an object at offset %d: %r" % (i, s[i:i + 60])
        out.append(obj)
        i = j


def normalise_events(objs):
    """Reduce tool output / library events to the comparable sequence."""
    seq = []
    for o in objs:
        if "text" in o and "choices" not in o:
            seq.append(("text", o["text"]))
        elif "tags" in o and "choices" not in o:
            seq.append(("tags", tuple(o["tags"])))
        elif "choices" in o:
            seq.append(("choices", tuple((c["text"], tuple(c.get("tags", []))) for c in o["choices"])))
        elif "issues" in o:
            seq.append(("issues", tuple(o["issues"])))
        elif "needInput" in o:
            seq.append(("needInput",))
        elif "cmdOutput" in o:
            seq.append(("cmdOutput",))
        elif "end" in o:
            seq.append(("end",))
        elif "close" in o:
            seq.append(("close",))
    return seq


def render_plain(events):
    """The plain-mode stdout the documented format prescribes for a sequence of library events."""
    out = []
    for o in events:
        if "text" in o:
            out.append(o["text"])
        elif "tags" in o:
            out.append("# tags: " + ", ".join(o["tags"]) + "\n")
        elif "choices" in o:
            out.append("\n")
            for i, c in enumerate(o["choices"]):
                out.append("%d: %s\n" % (i + 1, c["text"]))
                if c.get("tags"):
                    out.append("# tags: " + ", ".join(c["tags"]) + "\n")
        elif "needInput" in o:
            out.append("?> ")
        elif "cmdOutput" in o:
            out.append("Type a choice number or a divert (e.g. '-> myKnot'), 'quit' to exit\n")
        elif "end" in o:
            out.append("--- End of story ---\n")
        elif "close" in o:
            out.append("<User input stream closed.>\n")
    return "".join(out)


def run_tool(cli, args, stdin_text, cwd, timeout=60):
    try:
        r = subprocess.run([cli] + args, input=stdin_text.encode("utf-8"), cwd=cwd, stdout=subprocess.PIPE, stderr=subprocess.PIPE, timeout=timeout)
        return r.returncode, r.stdout.decode("utf-8", errors="replace"), r.stderr.decode("utf-8", errors="replace"), False
    except subprocess.TimeoutExpired:
        return None, "", "", True


def check_case(cli, cdir):
    """Returns (list of (signature, witness), counters)."""
    viol = []
    cnt = {}

    def bump(k, n=1):
        cnt[k] = cnt.get(k, 0) + n

    case = json.load(open(os.path.join(cdir, "case.json")))
    for si, sc in enumerate(case["scripts"]):
        if "expected" not in sc:
            bump("library-could-not-play(skipped)")
            continue
        stdin_text = "".join(x + "\n" for x in sc["inputs"])
        exp = sc["expected"]
        flags = "-pjk" if sc["keep_open"] else "-pj"
        # ---- JSON mode
        rc, out, err, to = run_tool(cli, [flags, "prog.ink"], stdin_text, cdir)
        bump("runs:json")
        wit = {"case": cdir, "script": si, "inputs": sc["inputs"], "flags": flags}
        if to:
            viol.append(("INCONCLUSIVE-timeout", dict(wit)))
            continue
        objs, bad = decode_stream(out)
        if bad:
            viol.append(("json-mode/stdout-not-a-json-stream", dict(wit, problem=bad)))
            continue
        bump("json-objects-parsed", len(objs))
        unknown = [o for o in objs if len(o) == 0 or not (set(o.keys()) & KINDS)]
        if unknown:
            viol.append(("json-mode/undocumented-object", dict(wit, objects=unknown[:3])))
            continue
        if not objs or objs[0] != {"compile-success": True}:
            viol.append(("json-mode/no-compile-success-first", dict(wit, first=objs[:1])))
            continue
        got = normalise_events(objs[1:])
        want = normalise_events(exp)
        # the help text itself is not compared, only that a cmdOutput object appears
        if got != want:
            k = next((i for i in range(min(len(got), len(want))) if got[i] != want[i]), min(len(got), len(want)))
            kind = (want[k][0] if k < len(want) else got[k][0]) if (got or want) else "empty"
            viol.append(("json-mode/sequence-differs-from-library:" + kind, dict(wit, index=k, tool=[list(map(str, x)) for x in got[k:k + 2]], library=[list(map(str, x)) for x in want[k:k + 2]])))
            continue
        if rc != 0:
            viol.append(("json-mode/nonzero-exit-on-normal-play", dict(wit, status=rc, stderr=err[-500:])))
            continue
        # ---- plain mode
        flags = "-pk" if sc["keep_open"] else "-p"
        rc, out, err, to = run_tool(cli, [flags, "prog.ink"], stdin_text, cdir)
        bump("runs:plain")
        wit = {"case": cdir, "script": si, "inputs": sc["inputs"], "flags": flags}
        if to:
            viol.append(("INCONCLUSIVE-timeout", dict(wit)))
            continue
        want_out = render_plain(exp)
        if out != want_out:
            k = next((i for i in range(min(len(out), len(want_out))) if out[i] != want_out[i]), min(len(out), len(want_out)))
            viol.append(("plain-mode/stdout-differs-from-library", dict(wit, offset=k, tool=out[max(0, k - 60):k + 80], library=want_out[max(0, k - 60):k + 80])))
            continue
        # every issue the library reported must be on stderr in plain mode
        for o in exp:
            for msg in o.get("issues", []):
                bump("issues-checked")
                if msg.startswith("Error diverting"):
                    continue  # printed in a different wording on stderr: "<error diverting to ...>"
                if msg not in err:
                    viol.append(("plain-mode/issue-not-on-stderr", dict(wit, issue=msg, stderr=err[-600:])))
                    break
    # ---- compile mode: output file equals the library's output; re-compiling over an older, longer file too
    lib = open(os.path.join(cdir, "lib.json"), encoding="utf-8").read()
    outp = os.path.join(cdir, "out.json")
    with open(outp, "w", encoding="utf-8") as f:
        f.write(lib + " " * 4000 + "\n\n{\"stale\": \"tail of an older, longer output file\"}\n")
    rc, out, err, to = run_tool(cli, ["-o", "out.json", "prog.ink"], "", cdir)
    bump("runs:compile")
    wit = {"case": cdir, "mode": "compile -o"}
    if to:
        viol.append(("INCONCLUSIVE-timeout", dict(wit)))
    elif rc != 0:
        viol.append(("compile-mode/failed-on-valid-source", dict(wit, status=rc, stderr=err[-500:])))
    else:
        written = open(outp, encoding="utf-8", errors="replace").read()
        if written != lib:
            k = next((i for i in range(min(len(written), len(lib))) if written[i] != lib[i]), min(len(written), len(lib)))
            viol.append(("compile-mode/output-file-differs-from-library", dict(wit, offset=k, library_len=len(lib), file_len=len(written), file_at=written[k:k + 80], library_at=lib[k:k + 80])))
    rc, out, err, to = run_tool(cli, ["-j", "-o", "out2.json", "prog.ink"], "", cdir)
    bump("runs:compile")
    if not to:
        objs, bad = decode_stream(out)
        if bad or rc != 0 or {"compile-success": True} not in objs or {"export-complete": True} not in objs:
            viol.append(("compile-mode/json-protocol", dict(wit, status=rc, problem=bad, objects=objs[:4])))
    # ---- compile error: non-zero exit and the compiler's message (with file and line)
    if case.get("bad_error"):
        msg = case["bad_error"]
        for mode in ([], ["-j"]):
            rc, out, err, to = run_tool(cli, mode + ["-o", "bad.json", "bad.ink"], "", cdir)
            bump("runs:compile-error")
            wit = {"case": cdir, "mode": "compile bad.ink " + " ".join(mode), "library_error": msg, "inserted": case.get("bad_line_inserted")}
            if to:
                viol.append(("INCONCLUSIVE-timeout", dict(wit)))
                continue
            expected_text = msg.replace("prog.ink", "bad.ink")
            if rc == 0:
                viol.append(("compile-error/exit-status-zero", dict(wit, stdout=out[-300:], stderr=err[-300:])))
                continue
            if mode:
                objs, bad = decode_stream(out)
                issues = [i for o in objs for i in o.get("issues", [])] if not bad else []
                if bad or {"compile-success": False} not in objs or not any(expected_text in i for i in issues):
                    viol.append(("compile-error/json-report", dict(wit, problem=bad, objects=objs[:4], expected=expected_text)))
            elif expected_text not in err:
                viol.append(("compile-error/message-missing-on-stderr", dict(wit, stderr=err[-500:], expected=expected_text)))
    return viol, cnt


def run(ck, pid, opts, common):
    t0 = time.time()
    quick = opts["tier"] != "thorough"
    seed = opts["seed"]
    binary = ck.build("debug")
    cli = ck.build_cli("debug")
    ncases = 120 if quick else 2500
    work = os.path.join(ck.TARGET + "-c20-cases")
    shutil.rmtree(work, ignore_errors=True)
    os.makedirs(work)
    r = subprocess.run([binary, "c20gen", "--seed", seed, "--count", str(ncases), "--dir", work], env=ck.ENV, stdout=subprocess.PIPE, stderr=subprocess.PIPE, text=True)
    if r.returncode != 0 or "C20GEN" not in r.stdout:
        ck.log("INCONCLUSIVE case generation failed: %s" % (r.stderr[-1000:]))
        return 2
    cdirs = sorted(os.path.join(work, d) for d in os.listdir(work) if d.startswith("case-"))
    with ThreadPoolExecutor(max_workers=16) as ex:
        results = list(ex.map(lambda d: check_case(cli, d), cdirs))
    known = {}
    for f in json.load(open(os.path.join(ck.VERIF, "known_findings.json"))).get("findings", []):
        if f["property"] == pid:
            known[f["signature"]] = f["what"]
    observed, sigs, matched = {}, {}, {}
    inconclusive = 0
    evaluations = 0
    for viol, cnt in results:
        for k, v in cnt.items():
            observed[k] = observed.get(k, 0) + v
            if k.startswith("runs:"):
                evaluations += v
        for sig, wit in viol:
            if sig.startswith("INCONCLUSIVE"):
                inconclusive += 1
                continue
            sigs.setdefault(sig, wit)
    rdir = os.path.join(ck.VERIF, "replays")
    os.makedirs(rdir, exist_ok=True)
    nviol = 0
    for sig, wit in sorted(sigs.items()):
        if sig in known:
            print("KNOWN-FINDING: property=%s %s [%s]" % (pid, known[sig], sig))
            matched[sig] = 1
            continue
        nviol += 1
        # keep the case directory of the witness
        keep = os.path.join(rdir, "C20-%s-s%s-%d" % (opts["tier"], seed, nviol))
        shutil.rmtree(keep, ignore_errors=True)
        try:
            shutil.copytree(wit["case"], keep)
        except Exception:
            pass
        p = keep + ".json"
        json.dump({"property": pid, "signature": sig, "witness": wit, "case_dir": keep}, open(p, "w"), indent=1, ensure_ascii=False)
        print("VIOLATION property=%s replay=%s" % (pid, p))
        print("  signature: %s" % sig)
    samples = []
    for d in cdirs[:2]:
        c = json.load(open(os.path.join(d, "case.json")))
        sc = c["scripts"][0]
        samples.append({"program": c["name"], "source_head": open(os.path.join(d, "prog.ink"), encoding="utf-8").read()[:600], "stdin": sc["inputs"], "library_events_head": sc.get("expected", [])[:8]})
    distinct = len(cdirs) * 4
    ev = {
        "property_id": pid, "tier": "quick" if quick else "thorough", "seed": int(seed), "level": "exploration",
        "coverage": {
            "evaluations": evaluations, "distinct_nontrivial": sum(1 for v, c in results if c.get("runs:json", 0) > 0) * 4,
            "rule": "case = (generated program whose text, tags and choices contain quotes, apostrophes, non-ASCII incl. non-BMP, C0 control characters, DEL, U+2028; scripted stdin of valid choices, 0, out-of-range and huge numbers, blank lines, help, '-> known', '-> unknown\"with\\\\hostile', control characters, nonsense, quit, early end of input). The real rinklecate binary is run in -pj[k] and -p[k] mode, in compile mode (-o over an older longer file; -j -o) and on a source with an inserted error. Monitored: -j stdout is a concatenation of JSON objects of the documented kinds starting with compile-success; the sequence of text/tags/choices/issues/needInput/end/close objects equals the library's transcript for the same inputs; plain stdout equals the documented rendering of that transcript and library issues appear on stderr; the -o file is byte-identical to the library's compilation; a compile error exits non-zero and reports the compiler's message with file name and line. Non-trivial = programs the library could play; distinct by (program, script).",
            "samples": samples, "observed": observed, "inconclusive": {"tool-timeouts": inconclusive}, "known_findings_matched": matched,
            "violation_signatures": [s for s in sorted(sigs) if s not in known], "programs": len(cdirs),
        },
        "assumptions": ["the expected transcript is produced by the library driven with the tool's documented settings (fallbacks on, handler set, 1-based choices, '-> path' with call-stack reset)", "generated programs contain no randomness"],
        "wall_s": round(time.time() - t0, 2), "violations": nviol,
    }
    json.dump(ev, open(os.path.join(ck.VERIF, "evidence", "C20.json"), "w"), indent=1, ensure_ascii=False)
    print("SUMMARY property=%s tier=%s seed=%s evaluations=%d programs=%d violations=%d known=%d wall_s=%.1f" % (pid, opts["tier"], seed, evaluations, len(cdirs), nviol, len(matched), ev["wall_s"]), flush=True)
    shutil.rmtree(work, ignore_errors=True)
    if nviol:
        return 1
    if inconclusive or len(cdirs) < ncases // 3:
        print("INCONCLUSIVE property=%s timeouts=%d programs=%d" % (pid, inconclusive, len(cdirs)))
        return 2
    return 0

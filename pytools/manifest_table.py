check("C05", "exploration",
  "Every (source, reference .ink.json) pair of the corpus is compiled with the current compiler and both stories are played in lockstep on the same runtime with the same seed along every choice path (exhaustive to depth 10/14 for the small stories; breadth-first prefix plus deterministic playouts for The Intercept); lines, tags, choices, end status and final globals must be equal. Shuffle stories are compared as transcript sets over story seeds, modulo the constant seed offset the container path contributes. A finite corpus explored (nearly) exhaustively is the right level: the property quantifies over exactly these inputs.",
  "Trusts the reference fixtures as inklecate output and the runtime as a common execution vehicle (a runtime defect affecting both stories identically is invisible here; see C01). 18 recorded genuine divergences are listed in known_findings.json by (file@knot.stitch#field).",
  "lockstep differential monitor: reference-compiled vs own-compiled story, all choice paths",
  "DESIGN.md §4 C05")

check("C02", "exploration",
  "Generated programs (lists, RANDOM, shuffles, threads, tunnels, multi-line functions, fallbacks) and corpus stories are driven through seeded host-call histories (continues, choices, several flows, path jumps, host assignments); at EVERY boundary of every history the story is saved, loaded into a freshly constructed story with the same host bindings, and monitored in lockstep against the uninterrupted control: state right after load (can_continue, text, tags, choices, all globals, all visit counts), canonical equality of a second save, every later call of the history, final state. The oracle needs no knowledge of Ink semantics, so it cannot be stricter than correct code.",
  "Trusts the control run (same program, seed, history without the save) as reference and the step-fuel/story-seed hooks. Save points in error states and fuel-exhausted runs are counted as inconclusive, not as held.",
  "lockstep metamorphic monitor: save -> fresh story -> load must be invisible at every history boundary",
  "DESIGN.md §4 C02")

check("C09", "exploration",
  "For generated programs and seeded valid host-call histories (incl. named flows, host assignments, observers on every global, a bound external, with and without an error handler) every kind of invalid call (23 kinds: continue/continue_async when finished, out-of-range and huge choice indices, undeclared variables, unknown/blank functions, unknown paths with and without call-stack reset, double bind, unbind of unbound, three kinds of bad saves, tags of a non-container, removal of the default/absent flow, removal of unregistered observers) is injected after EVERY position of the history. The monitor requires: no panic, Err for the kinds that must fail, no callback during the call, identical snapshot / all globals / all visit counts / canonical save right after it, identical later records (text, tags, choices, results, callback events) and final state as the control without the injection.",
  "Control run without the injection is the reference. Idempotent removals may return Ok or Err but must change nothing. Sensitivity confirmed by reverting fix e261838 (7 distinct signatures fire).",
  "lockstep metamorphic monitor: invalid call injected at every position x kind, compared with uninjected control",
  "DESIGN.md §4 C09")

"""C14: the same documents observed under the default and the streaming loader (two builds), digests compared."""
import glob
import json
import os
import shutil
import subprocess
import sharded


def setup(ck):
    ck.build("debug", features=("stream",), quiet=False)


def load_hashes(d, loader):
    m = {}
    for f in glob.glob(os.path.join(d, "hashes-%s-*.txt" % loader)):
        for line in open(f, errors="replace"):
            parts = line.rstrip("\n").split(" ", 2)
            if len(parts) == 3:
                m[parts[2]] = (parts[0], parts[1])
    return m


def dump(ck, binary, common, key):
    r = subprocess.run([binary] + common + ["--dump-doc", key, "--out", os.path.join(ck.VERIF, "evidence", ".c14-dump.json")], env=ck.ENV, stdout=subprocess.PIPE, stderr=subprocess.PIPE, text=True)
    out = r.stdout
    obs = out.split("DUMP-BEGIN", 1)[1].split("DUMP-END", 1)[0] if "DUMP-BEGIN" in out else ""
    doc = out.split("DOC-BEGIN", 1)[1].split("DOC-END", 1)[0] if "DOC-BEGIN" in out else ""
    return obs, doc


def run(ck, pid, opts, common):
    quick = opts["tier"] != "thorough"
    profile = "debug" if quick else "release"
    n = 8 if quick else 16
    hd = os.path.join(ck.VERIF, "evidence", ".hashes-C14")
    shutil.rmtree(hd, ignore_errors=True)
    os.makedirs(hd)
    b_def = ck.build(profile)
    b_str = ck.build(profile, features=("stream",))
    rc1, ev1, d1 = sharded.run_sharded(ck, pid, b_def, common + ["--hashes-dir", hd], n, 3600)
    if ev1 is None:
        return 2
    rc2, ev2, d2 = sharded.run_sharded(ck, pid, b_str, common + ["--hashes-dir", hd], n, 3600)
    if ev2 is None:
        return 2
    c, d = ev1["coverage"], ev2["coverage"]
    c["observed"] = {"default-loader": c.get("observed", {}), "stream-loader": d.get("observed", {})}
    c["loader"] = "default vs stream"
    ev1["violations"] = ev1.get("violations", 0) + ev2.get("violations", 0)
    ev1["wall_s"] = round(ev1["wall_s"] + ev2["wall_s"], 2)
    rc = 1 if 1 in (rc1, rc2) else max(rc1, rc2)
    hdef, hstr = load_hashes(hd, "default"), load_hashes(hd, "stream")
    both = sorted(set(hdef) & set(hstr))
    c["documents_compared"] = len(both)
    c["documents_only_in_one_build"] = len(set(hdef) ^ set(hstr))
    diff = [k for k in both if hdef[k][0] != hstr[k][0]]
    c["documents_differing"] = len(diff)
    # known findings: keyed by (style, outcome pair)
    known = {}
    for f in json.load(open(os.path.join(ck.VERIF, "known_findings.json"))).get("findings", []):
        if f["property"] == pid:
            known[f["signature"]] = f["what"]
    seen = set()
    rdir = os.path.join(ck.VERIF, "replays")
    os.makedirs(rdir, exist_ok=True)
    nviol = 0
    for key in diff:
        style = key.rsplit("|", 1)[1]
        variant = key.split("|")[1].split("(")[0]
        sig = "loaders-differ/%s/%s/default=%s,stream=%s" % (style, variant, hdef[key][1], hstr[key][1])
        if sig in seen:
            continue
        seen.add(sig)
        if sig in known:
            print("KNOWN-FINDING: property=%s %s [%s]" % (pid, known[sig], sig))
            c.setdefault("known_findings_matched", {})[sig] = 1
            continue
        nviol += 1
        o1, doc = dump(ck, b_def, common, key)
        o2, _ = dump(ck, b_str, common, key)
        l1, l2 = o1.splitlines(), o2.splitlines()
        first = next((i for i in range(min(len(l1), len(l2))) if l1[i] != l2[i]), min(len(l1), len(l2)))
        p = os.path.join(rdir, "C14-%s-s%s-%d.json" % (opts["tier"], opts["seed"], nviol))
        json.dump({"property": pid, "signature": sig, "witness": {"document": key, "first_differing_line": first,
                   "default_loader": l1[first:first + 3], "stream_loader": l2[first:first + 3], "serialised_document_head": doc[:3000]}}, open(p, "w"), indent=1)
        print("VIOLATION property=%s replay=%s" % (pid, p))
        print("  signature: %s (e.g. %s)" % (sig, key))
        ev1["violations"] += 1
        rc = 1
    if c["documents_only_in_one_build"]:
        print("INCONCLUSIVE property=%s the two builds did not enumerate the same documents" % pid)
        rc = max(rc, 2) if rc != 1 else 1
    return sharded.finish(ck, pid, opts, rc, ev1, d1 + d2, floor=c.get("observation_floor"))

"""C03: determinism across 4 separate processes in 2 build profiles (fresh hash seeds per process), plus in-process repeats."""
import glob
import json
import os
import shutil
import sharded


def load(d, label):
    m = {}
    for f in glob.glob(os.path.join(d, "hashes-%s-*.txt" % label)):
        for line in open(f, errors="replace"):
            h, _, k = line.rstrip("\n").partition(" ")
            m[k] = h
    return m


def run(ck, pid, opts, common):
    quick = opts["tier"] != "thorough"
    n = 8 if quick else 16
    hd = os.path.join(ck.VERIF, "evidence", ".hashes-C03")
    shutil.rmtree(hd, ignore_errors=True)
    os.makedirs(hd)
    bins = {"debug": ck.build("debug"), "release": ck.build("release")}
    labels = [("debug-1", "debug"), ("debug-2", "debug"), ("release-1", "release"), ("release-2", "release")]
    merged, rcs, deaths = None, [], []
    for label, prof in labels:
        rc, ev, d = sharded.run_sharded(ck, pid, bins[prof], common + ["--hashes-dir", hd, "--run-label", label], n, 3600)
        if ev is None:
            return 2
        rcs.append(rc)
        deaths += d
        if merged is None:
            merged = ev
            merged["coverage"]["observed"] = {label: ev["coverage"].get("observed", {})}
        else:
            merged["coverage"]["observed"][label] = ev["coverage"].get("observed", {})
            merged["coverage"]["evaluations"] += ev["coverage"].get("evaluations", 0)
            merged["coverage"]["violation_signatures"] = sorted(set(merged["coverage"].get("violation_signatures", []) + ev["coverage"].get("violation_signatures", [])))
            merged["violations"] = merged.get("violations", 0) + ev.get("violations", 0)
            merged["wall_s"] = round(merged["wall_s"] + ev["wall_s"], 2)
    rc = 1 if 1 in rcs else max(rcs)
    maps = {label: load(hd, label) for label, _ in labels}
    keys = set.intersection(*[set(m) for m in maps.values()])
    differing = [k for k in sorted(keys) if len({m[k] for m in maps.values()}) > 1]
    # a case that completed in some processes only (e.g. a debug-only overflow panic) is a difference too
    union = set.union(*[set(m) for m in maps.values()])
    partial = sorted(k for k in union if k not in keys)
    c = merged["coverage"]
    c["processes_compared"] = len(labels)
    c["cases_compared_across_processes"] = len(keys)
    c["cases_differing_across_processes"] = len(differing)
    c["cases_completed_in_some_processes_only"] = len(partial)
    if partial:
        p = os.path.join(ck.VERIF, "replays", "C03-%s-s%s-partial.json" % (opts["tier"], opts["seed"]))
        os.makedirs(os.path.dirname(p), exist_ok=True)
        json.dump({"property": pid, "tier": opts["tier"], "seed": opts["seed"], "signature": "nondeterministic/case-completes-in-some-processes-or-profiles-only",
                   "witness": {"cases": [{"case": k, "completed_in": [l for l in maps if k in maps[l]]} for k in partial[:20]], "count": len(partial)}}, open(p, "w"), indent=1)
        print("VIOLATION property=%s replay=%s" % (pid, p))
        print("  signature: nondeterministic/case-completes-in-some-processes-or-profiles-only (%d cases)" % len(partial))
        merged["violations"] = merged.get("violations", 0) + 1
        rc = 1
    if differing:
        p = os.path.join(ck.VERIF, "replays", "C03-%s-s%s-across-processes.json" % (opts["tier"], opts["seed"]))
        os.makedirs(os.path.dirname(p), exist_ok=True)
        json.dump({"property": pid, "signature": "nondeterministic/across-processes-or-profiles", "witness": {"cases": [{"case": k, "digests": {l: maps[l][k] for l in maps}} for k in differing[:20]], "count": len(differing)}}, open(p, "w"), indent=1)
        print("VIOLATION property=%s replay=%s" % (pid, p))
        print("  signature: nondeterministic/across-processes-or-profiles (%d of %d cases)" % (len(differing), len(keys)))
        merged["violations"] = merged.get("violations", 0) + 1
        rc = 1
    return sharded.finish(ck, pid, opts, rc, merged, deaths, floor=c.get("observation_floor"))

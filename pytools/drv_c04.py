"""C04: crash monitor in both build profiles (debug: overflow checks on; release), sharded; compares per-case transcript hashes."""
import glob
import json
import os
import shutil
import sharded


def setup(ck):
    pass  # debug and release harness builds are made by the generic setup


def load_hashes(d, profile):
    m = {}
    for f in glob.glob(os.path.join(d, "hashes-%s-*.txt" % profile)):
        for line in open(f, errors="replace"):
            h, _, k = line.rstrip("\n").partition(" ")
            m[k] = h
    return m


def run(ck, pid, opts, common):
    quick = opts["tier"] != "thorough"
    n = 8 if quick else 16
    hd = os.path.join(ck.VERIF, "evidence", ".hashes-C04")
    shutil.rmtree(hd, ignore_errors=True)
    os.makedirs(hd)
    b_dbg = ck.build("debug")
    b_rel = ck.build("release")
    rc1, ev1, d1 = sharded.run_sharded(ck, pid, b_dbg, common + ["--hashes-dir", hd], n, 3600)
    if ev1 is None:
        return 2
    rc2, ev2, d2 = sharded.run_sharded(ck, pid, b_rel, common + ["--hashes-dir", hd], n, 3600)
    if ev2 is None:
        return 2
    c, d = ev1["coverage"], ev2["coverage"]
    c["observed"] = {"debug": c.get("observed", {}), "release": d.get("observed", {})}
    c["known_findings_matched"] = sharded.merge_dict(c.get("known_findings_matched", {}), d.get("known_findings_matched", {}))
    c["violation_signatures"] = sorted(set(c.get("violation_signatures", []) + d.get("violation_signatures", [])))
    c["evaluations"] = c.get("evaluations", 0) + d.get("evaluations", 0)
    ev1["violations"] = ev1.get("violations", 0) + ev2.get("violations", 0)
    ev1["wall_s"] = round(ev1["wall_s"] + ev2["wall_s"], 2)
    rc = 1 if 1 in (rc1, rc2) else max(rc1, rc2)
    # debug == release, case by case
    hd_dbg, hd_rel = load_hashes(hd, "debug"), load_hashes(hd, "release")
    both = sorted(set(hd_dbg) & set(hd_rel))
    diff = [k for k in both if hd_dbg[k] != hd_rel[k]]
    c["debug_release_cases_compared"] = len(both)
    c["debug_release_cases_differing"] = len(diff)
    if diff:
        p = os.path.join(ck.VERIF, "replays", "C04-%s-s%s-debug-vs-release.json" % (opts["tier"], opts["seed"]))
        os.makedirs(os.path.dirname(p), exist_ok=True)
        json.dump({"property": "C04", "signature": "debug-release/transcripts-differ", "witness": {"cases": diff[:20], "count": len(diff)}}, open(p, "w"), indent=1)
        print("VIOLATION property=C04 replay=%s" % p)
        print("  signature: debug-release/transcripts-differ (%d of %d cases)" % (len(diff), len(both)))
        ev1["violations"] += 1
        rc = 1
    known = {}
    for f in json.load(open(os.path.join(ck.VERIF, "known_findings.json"))).get("findings", []):
        if f["property"] == pid and f["signature"].startswith("process-death/"):
            known[f["signature"]] = f["what"]
    return sharded.finish(ck, pid, opts, rc, ev1, d1 + d2, floor=c.get("observation_floor"), known_death=known)

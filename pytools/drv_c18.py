"""C18 orchestration: counting-allocator run + Miri shards + valgrind memcheck shards, merged into one evidence file."""
import json
import os
import re
import subprocess
import time
from concurrent.futures import ThreadPoolExecutor

TINY = 7


def setup(ck):
    ck.build("debug", features=("count-alloc",), quiet=False)
    ck.build("release", features=("count-alloc",), quiet=False)
    # Miri build of the harness (sysroot + crates)
    t0 = time.time()
    r = miri(ck, ["leakrun", "--count", "0", "--cycles", "1"], timeout=3600)
    ck.log("[miri build+smoke: %.0fs rc=%s]" % (time.time() - t0, r.returncode))


def miri(ck, args, timeout):
    env = dict(ck.ENV, MIRIFLAGS="-Zmiri-disable-isolation")
    cmd = ["cargo", "+nightly", "miri", "run", "--offline", "--target-dir", ck.TARGET + "-miri", "--"] + args
    return subprocess.run(cmd, cwd=ck.harness_dir(), env=env, stdout=subprocess.PIPE, stderr=subprocess.STDOUT, text=True, timeout=timeout)


def run(ck, pid, opts, common):
    t0 = time.time()
    quick = opts["tier"] != "thorough"
    seed = opts["seed"]
    profile = "debug" if quick else "release"
    counted = ck.build(profile, features=("count-alloc",))
    plain = ck.build("release")
    ev_path = os.path.join(ck.VERIF, "evidence", "C18.json")
    part = ev_path + ".tmp"
    violations = []
    # 1. counting allocator (the main oracle)
    r = ck.run_harness(counted, common + ["--out", part])
    rc = r.returncode
    if rc not in (0, 1, 2):
        ck.log("INCONCLUSIVE counting run crashed with status %s" % rc)
        return 2
    ev = json.load(open(part))
    os.remove(part)
    cov = ev["coverage"]
    # 2. Miri: undefined-behaviour interpreter used as leak sanitizer on tiny stories with back-edges
    miri_jobs = [["leakrun", "--seed", seed, "--count", "0", "--tiny", str(k), "--cycles", "2"] for k in range(TINY)]
    if not quick:
        miri_jobs += [["leakrun", "--seed", str(int(seed) + j), "--count", "0", "--tiny", str(k), "--cycles", "3"] for j in range(1, 4) for k in range(TINY)]
    miri_reports = []
    ck.build("debug")  # make sure path deps compile before the parallel miri runs start
    first = miri(ck, miri_jobs[0], 3600)  # serial first run builds the miri artefacts once
    results = [first]
    with ThreadPoolExecutor(max_workers=8) as ex:
        results += list(ex.map(lambda a: miri(ck, a, 3600), miri_jobs[1:]))
    miri_ok = 0
    for args, res in zip(miri_jobs, results):
        out = res.stdout
        if "LEAKRUN played=1" in out and res.returncode == 0:
            miri_ok += 1
        elif "memory leaked" in out or "Undefined Behavior" in out:
            kind = "miri-leak" if "memory leaked" in out else "miri-undefined-behaviour"
            miri_reports.append({"args": args, "kind": kind, "excerpt": "\n".join(out.splitlines()[-40:])})
        else:
            ck.log("INCONCLUSIVE miri run failed for another reason (rc=%s): %s" % (res.returncode, out[-1500:]))
            return 2
    # 3. valgrind memcheck on the release harness (no counting allocator)
    vg_jobs = [["leakrun", "--seed", seed, "--from", str(k * 5), "--count", "5", "--cycles", "2"] for k in range(4 if quick else 40)]
    vg_jobs += [["leakrun", "--seed", seed, "--count", "0", "--tiny", str(k), "--cycles", "3"] for k in range(TINY)]
    if not quick:
        vg_jobs.append(["leakrun", "--seed", seed, "--count", "0", "--corpus", "TheIntercept", "--cycles", "1"])

    def vg(args):
        cmd = ["valgrind", "--leak-check=full", "--errors-for-leak-kinds=definite,indirect", "--error-exitcode=9", plain] + args
        return subprocess.run(cmd, env=ck.ENV, stdout=subprocess.PIPE, stderr=subprocess.STDOUT, text=True, timeout=3600)

    vg_reports = []
    vg_ok = 0
    lost = 0
    with ThreadPoolExecutor(max_workers=12) as ex:
        for args, res in zip(vg_jobs, ex.map(vg, vg_jobs)):
            m = re.search(r"definitely lost: ([\d,]+) bytes", res.stdout)
            m2 = re.search(r"indirectly lost: ([\d,]+) bytes", res.stdout)
            d = int(m.group(1).replace(",", "")) if m else 0
            i = int(m2.group(1).replace(",", "")) if m2 else 0
            if res.returncode == 0 and "LEAKRUN played=" in res.stdout:
                vg_ok += 1
            elif res.returncode == 9 or d + i > 0:
                lost += d + i
                vg_reports.append({"args": args, "definitely_lost": d, "indirectly_lost": i, "excerpt": "\n".join(res.stdout.splitlines()[-30:])})
            else:
                ck.log("INCONCLUSIVE valgrind run failed for another reason (rc=%s): %s" % (res.returncode, res.stdout[-1500:]))
                return 2
    cov["sanitizers"] = {
        "miri_runs_clean": miri_ok, "miri_reports": len(miri_reports), "miri_jobs": len(miri_jobs),
        "valgrind_runs_clean": vg_ok, "valgrind_reports": len(vg_reports), "valgrind_jobs": len(vg_jobs), "valgrind_lost_bytes": lost,
    }
    rdir = os.path.join(ck.VERIF, "replays")
    os.makedirs(rdir, exist_ok=True)
    for n, rep in enumerate(miri_reports + vg_reports):
        p = os.path.join(rdir, "C18-%s-s%s-sanitizer-%d.json" % (opts["tier"], seed, n))
        json.dump({"property": "C18", "signature": "leak/" + rep.get("kind", "valgrind-lost-blocks"), "witness": rep}, open(p, "w"), indent=1)
        print("VIOLATION property=C18 replay=%s" % p)
        print("  signature: leak/%s %s" % (rep.get("kind", "valgrind-lost-blocks"), " ".join(rep["args"])))
        violations.append(p)
    ev["violations"] = ev.get("violations", 0) + len(violations)
    ev["wall_s"] = round(time.time() - t0, 2)
    ev["assumptions"] = ev.get("assumptions", []) + [
        "Miri runs tiny hand-written stories with back-edges (it is ~4 orders of magnitude slower); valgrind memcheck runs generated programs on the release harness built without the counting allocator"]
    json.dump(ev, open(ev_path, "w"), indent=1)
    print("SANITIZERS miri clean=%d/%d valgrind clean=%d/%d" % (miri_ok, len(miri_jobs), vg_ok, len(vg_jobs)), flush=True)
    if violations:
        return 1
    return rc

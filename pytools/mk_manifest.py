#!/usr/bin/env python3
"""Regenerates MANIFEST.json from the table below (run by hand when a check is added)."""
import json, os, subprocess
V = os.path.dirname(os.path.dirname(os.path.abspath(__file__)))

CHECKS = {}
def check(pid, cat, text, note, technique, design):
    CHECKS[pid] = dict(cat=cat, text=text, note=note, technique=technique, design=design)

exec(open(os.path.join(V, "pytools", "manifest_table.py")).read())

ALL = ["C%02d" % i for i in range(1, 21)]
PENDING_REASON = "check not built yet in this session (design in DESIGN.md section 4); not claimed until its monitor runs silently on the unchanged tree"

hooks_commits = subprocess.run(["git", "-C", "/repo", "log", "--format=%h %s", "--grep=^verif hooks"], capture_output=True, text=True).stdout.strip().splitlines()
m = {
 "version": 1,
 "setup_cmd": "./check --setup",
 "hooks": {
  "guard": "cargo feature `verif` on crate bladeink (runtime/Cargo.toml), off by default",
  "enable": "the harness crate /verif/harness depends on bladeink with features=[\"verif\"]; `cargo build --offline` in /verif/harness rebuilds from /repo's working tree",
  "baseline_off_cmd": "cd /repo && cargo test --workspace --no-fail-fast --offline",
  "source_commits": [c.split()[0] for c in hooks_commits],
  "add_only": True,
 },
 "engines": [
  {"name": "inkmon", "path": "harness/", "serves_properties": sorted(CHECKS), "kind_free_text": "Rust harness: workload generators, host-call player with observation log, lockstep/differential monitors, crash monitor, counting allocator, independent reference interpreter"},
  {"name": "check", "path": "check", "serves_properties": sorted(CHECKS), "kind_free_text": "python driver: builds the harness against /repo's working tree, orchestrates multi-build / multi-process comparisons, valgrind and Miri shards"},
 ],
 "checks": [],
 "not_applicable": [],
 "notes": "Technique family: runtime monitoring and sanitizers. Exit 0 = held on everything explored (KNOWN-FINDING lines list recorded genuine defects from known_findings.json); exit 1 + VIOLATION line = unlisted violation; exit 2 + INCONCLUSIVE line = observation floor not met / checker problem (never counted as held or violated).",
}
for pid in ALL:
    if pid in CHECKS:
        c = CHECKS[pid]
        m["checks"].append({
            "property_id": pid,
            "quick_cmd": "./check %s --tier quick" % pid,
            "thorough_cmd": "./check %s --tier thorough" % pid,
            "evidence_file": "/verif/evidence/%s.json" % pid,
            "replay_cmd_template": "./check %s --replay {path}" % pid,
            "engine": "inkmon",
            "level_claimed": {"category": c["cat"], "text": c["text"], "design_ref": c["design"]},
            "level_note": c["note"],
            "technique": c["technique"],
        })
    else:
        m["not_applicable"].append({"property_id": pid, "reason": PENDING_REASON})
json.dump(m, open(os.path.join(V, "MANIFEST.json"), "w"), indent=1)
print("claimed:", sorted(CHECKS), "pending:", [p for p in ALL if p not in CHECKS])

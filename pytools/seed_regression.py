#!/usr/bin/env python3
"""Applies every kept seeded change to /repo in turn (git apply, never committed), runs the quick check of the
property it was written against, records whether a VIOLATION line appears, and reverts. Writes seeded/RESULTS.json.
Usage: seed_regression.py [name-prefix ...]"""
import json, os, subprocess, sys, time
V = os.path.dirname(os.path.dirname(os.path.abspath(__file__)))
sel = sys.argv[1:]
out_path = os.path.join(V, "seeded", "RESULTS.json")
results = json.load(open(out_path)) if os.path.exists(out_path) else {}
assert subprocess.run(["git", "-C", "/repo", "status", "--porcelain", "--untracked-files=no"], capture_output=True, text=True).stdout.strip() == "", "/repo is not clean"
for d in sorted(os.listdir(os.path.join(V, "seeded"))):
    p = os.path.join(V, "seeded", d, "patch.diff")
    if d.startswith("_") or not os.path.exists(p):
        continue
    if sel and not any(d.startswith(s) for s in sel):
        continue
    pid = d.split("-")[0]
    t0 = time.time()
    a = subprocess.run(["git", "-C", "/repo", "apply", p], capture_output=True, text=True)
    if a.returncode != 0:
        results[d] = {"property": pid, "applies": False, "note": a.stderr.strip()[:200]}
        print(d, "DOES NOT APPLY", flush=True)
        continue
    try:
        r = subprocess.run([os.path.join(V, "check"), pid, "--tier", "quick"], cwd=V, capture_output=True, text=True)
    finally:
        subprocess.run(["git", "-C", "/repo", "checkout", "--", "."])
    sigs = [l.strip()[len("signature: "):] for l in r.stdout.splitlines() if l.strip().startswith("signature:")]
    caught = "VIOLATION property=%s" % pid in r.stdout
    results[d] = {"property": pid, "applies": True, "caught_by_quick_check": caught, "exit": r.returncode, "signatures": sigs[:3], "wall_s": round(time.time() - t0, 1)}
    print(d, "CAUGHT" if caught else "MISSED", sigs[:1], flush=True)
    json.dump(results, open(out_path, "w"), indent=1, sort_keys=True)
json.dump(results, open(out_path, "w"), indent=1, sort_keys=True)
missed = [d for d, r in results.items() if r.get("applies") and not r.get("caught_by_quick_check")]
print("kept seeds: %d, caught: %d, missed: %s" % (len(results), sum(1 for r in results.values() if r.get("caught_by_quick_check")), missed))

"""C06: compiler crash/termination monitor, always sharded (a stack overflow kills a worker, not the check)."""
import json
import os
import sharded


def run(ck, pid, opts, common):
    quick = opts["tier"] != "thorough"
    profile = "debug" if quick else "release"
    binary = ck.build(profile)
    n = 8 if quick else 16
    # workers that die are re-started on the remaining cases of their shard: simplest is to let the
    # journal name the culprit and report; the rest of that shard's block is lost (counted below)
    rc, ev, deaths = sharded.run_sharded(ck, pid, binary, common + ["--no-bombs", "1"], n, 2 * 3600)
    if ev is None:
        return 2
    # nesting bombs and oversized inputs: one worker each, so that one stack overflow does not hide another
    rc2, ev2, deaths2 = sharded.run_sharded(ck, pid, binary, common + ["--bombs-only", "1"], 12, 1800)
    if ev2 is not None:
        c, d = ev["coverage"], ev2["coverage"]
        for key in ("evaluations", "distinct_nontrivial"):
            c[key] = c.get(key, 0) + d.get(key, 0)
        c["observed"] = sharded.merge_dict(c.get("observed", {}), d.get("observed", {}))
        c["known_findings_matched"] = sharded.merge_dict(c.get("known_findings_matched", {}), d.get("known_findings_matched", {}))
        c["violation_signatures"] = sorted(set(c.get("violation_signatures", []) + d.get("violation_signatures", [])))
        ev["violations"] = ev.get("violations", 0) + ev2.get("violations", 0)
        ev["wall_s"] = round(ev["wall_s"] + ev2["wall_s"], 2)
        rc = 1 if 1 in (rc, rc2) else max(rc, rc2)
    deaths = deaths + deaths2
    known = {}
    for f in json.load(open(os.path.join(ck.VERIF, "known_findings.json"))).get("findings", []):
        if f["property"] == pid and f["signature"].startswith("process-death/"):
            known[f["signature"]] = f["what"]
    return sharded.finish(ck, pid, opts, rc, ev, deaths, floor=ev["coverage"].get("observation_floor"), known_death=known)

//! Comparison of two observation logs.
use crate::player::{FullState, Rec};
use serde_json::{Value, json};

#[derive(Clone, Copy, Debug)]
pub struct CmpOpts {
    /// compare error/warning message texts (false: only their counts)
    pub exact_messages: bool,
    /// compare callback events
    pub events: bool,
    /// compare the Ok payload / Err kind of the call
    pub results: bool,
}

impl Default for CmpOpts {
    fn default() -> Self {
        CmpOpts {
            exact_messages: true,
            events: true,
            results: true,
        }
    }
}

#[derive(Clone, Debug)]
pub struct Divergence {
    pub index: usize,
    pub field: String,
    pub a: Value,
    pub b: Value,
}

impl Divergence {
    pub fn to_json(&self) -> Value {
        json!({"index": self.index, "field": self.field, "a": self.a, "b": self.b})
    }
}

pub fn cmp_rec(i: usize, a: &Rec, b: &Rec, o: &CmpOpts) -> Option<Divergence> {
    let d = |field: &str, x: Value, y: Value| {
        Some(Divergence {
            index: i,
            field: field.to_string(),
            a: x,
            b: y,
        })
    };
    if a.op != b.op {
        return d("op", json!(a.op), json!(b.op));
    }
    if o.results {
        match (&a.res, &b.res) {
            (Ok(x), Ok(y)) => {
                if x != y {
                    return d("result", json!(x), json!(y));
                }
            }
            (Err((kx, mx)), Err((ky, my))) => {
                if kx != ky || (o.exact_messages && mx != my) {
                    return d("error-result", json!([kx, mx]), json!([ky, my]));
                }
            }
            (x, y) => return d("ok-vs-err", json!(format!("{x:?}")), json!(format!("{y:?}"))),
        }
    }
    if a.snap.can_continue != b.snap.can_continue {
        return d("can_continue", json!(a.snap.can_continue), json!(b.snap.can_continue));
    }
    if a.snap.text != b.snap.text {
        return d("text", json!(a.snap.text), json!(b.snap.text));
    }
    if a.snap.tags != b.snap.tags {
        return d("tags", json!(a.snap.tags), json!(b.snap.tags));
    }
    if a.snap.choices != b.snap.choices {
        return d("choices", json!(a.snap.choices), json!(b.snap.choices));
    }
    if o.exact_messages {
        if a.snap.errors != b.snap.errors {
            return d("errors", json!(a.snap.errors), json!(b.snap.errors));
        }
        if a.snap.warnings != b.snap.warnings {
            return d("warnings", json!(a.snap.warnings), json!(b.snap.warnings));
        }
    } else {
        if a.snap.errors.len() != b.snap.errors.len() {
            return d("errors", json!(a.snap.errors), json!(b.snap.errors));
        }
        if a.snap.warnings.len() != b.snap.warnings.len() {
            return d("warnings", json!(a.snap.warnings), json!(b.snap.warnings));
        }
    }
    if o.events {
        if o.exact_messages {
            // the order in which different variables' observers are notified after one continue is not
            // specified (the engine keeps the changed set in a hash map): compare those as a multiset
            if canon_events(&a.events) != canon_events(&b.events) {
                return d("events", json!(a.events), json!(b.events));
            }
        } else if a.events.len() != b.events.len() {
            return d("events", json!(a.events), json!(b.events));
        }
    }
    None
}

pub fn cmp_recs(a: &[Rec], b: &[Rec], o: &CmpOpts) -> Option<Divergence> {
    for i in 0..a.len().min(b.len()) {
        if let Some(d) = cmp_rec(i, &a[i], &b[i], o) {
            return Some(d);
        }
    }
    if a.len() != b.len() {
        return Some(Divergence {
            index: a.len().min(b.len()),
            field: "length".into(),
            a: json!(a.len()),
            b: json!(b.len()),
        });
    }
    None
}

pub fn cmp_state(a: &FullState, b: &FullState, visits: bool) -> Option<Divergence> {
    if a.vars != b.vars {
        for (x, y) in a.vars.iter().zip(b.vars.iter()) {
            if x != y {
                return Some(Divergence {
                    index: usize::MAX,
                    field: format!("var {}", x.0),
                    a: json!(x),
                    b: json!(y),
                });
            }
        }
        return Some(Divergence {
            index: usize::MAX,
            field: "vars".into(),
            a: json!(a.vars),
            b: json!(b.vars),
        });
    }
    if visits && a.visits != b.visits {
        for (x, y) in a.visits.iter().zip(b.visits.iter()) {
            if x != y {
                return Some(Divergence {
                    index: usize::MAX,
                    field: format!("visits {}", x.0),
                    a: json!(x),
                    b: json!(y),
                });
            }
        }
        return Some(Divergence {
            index: usize::MAX,
            field: "visits".into(),
            a: json!(a.visits),
            b: json!(b.visits),
        });
    }
    None
}

/// The differing middle parts of two strings after removing the common prefix and suffix.
pub fn mid_diff(a: &str, b: &str) -> (String, String) {
    let ac: Vec<char> = a.chars().collect();
    let bc: Vec<char> = b.chars().collect();
    let mut p = 0;
    while p < ac.len() && p < bc.len() && ac[p] == bc[p] {
        p += 1;
    }
    let mut s = 0;
    while s < ac.len() - p && s < bc.len() - p && ac[ac.len() - 1 - s] == bc[bc.len() - 1 - s] {
        s += 1;
    }
    (
        ac[p..ac.len() - s].iter().collect(),
        bc[p..bc.len() - s].iter().collect(),
    )
}

use crate::player::{HostCfg, Op, Player, Snap};
use crate::programs::Compiled;

pub struct Injection {
    pub injected: Vec<Rec>,
    pub before: Snap,
    pub after: Snap,
    pub state_before: FullState,
    pub state_after: FullState,
    pub save_before: Option<Value>,
    pub save_after: Option<Value>,
    pub fp_before: String,
    pub fp_after: String,
    /// first divergence of the remaining history from the control
    pub later: Option<Divergence>,
    pub treated_tail: Vec<Rec>,
    pub final_state: FullState,
    pub fuel: bool,
}

/// Replays `ops[..=b]`, performs `extra`, then replays the rest comparing each record with `control`.
/// `b == usize::MAX` means: inject before the first op.
pub fn inject(
    c: &Compiled,
    host: &HostCfg,
    ops: &[Op],
    control: &[Rec],
    b: usize,
    extra: &[Op],
    opts: &CmpOpts,
    with_saves: bool,
) -> Result<Injection, String> {
    let mut p = Player::new(c.json.clone(), c.info.clone(), host.clone())?;
    let start = if b == usize::MAX { 0 } else { b + 1 };
    for op in &ops[..start] {
        p.apply(op);
    }
    let before = p.snap();
    let state_before = p.full_state();
    let fp_before = p.story.verif_fingerprint();
    let save_before = if with_saves { p.canonical_save().ok() } else { None };
    let mut injected = Vec::new();
    for e in extra {
        injected.push(p.apply(e));
    }
    let after = p.snap();
    let state_after = p.full_state();
    let fp_after = p.story.verif_fingerprint();
    let save_after = if with_saves { p.canonical_save().ok() } else { None };
    let mut later = None;
    let mut treated_tail = Vec::new();
    for (i, op) in ops.iter().enumerate().skip(start) {
        let rec = p.apply(op);
        let d = cmp_rec(i, &control[i], &rec, opts);
        treated_tail.push(rec);
        if d.is_some() {
            later = d;
            break;
        }
    }
    Ok(Injection {
        injected,
        before,
        after,
        state_before,
        state_after,
        save_before,
        save_after,
        fp_before,
        fp_after,
        later,
        treated_tail,
        final_state: p.full_state(),
        fuel: p.fuel_hit,
    })
}

pub fn canon_events(ev: &[String]) -> Vec<String> {
    let mut others: Vec<String> = ev.iter().filter(|e| !e.starts_with("obs#")).cloned().collect();
    let mut obs: Vec<String> = ev.iter().filter(|e| e.starts_with("obs#")).cloned().collect();
    obs.sort();
    others.extend(obs);
    others
}

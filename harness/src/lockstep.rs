//! Comparison of two observation logs.
use crate::player::{FullState, Rec};
use serde_json::{Value, json};

#[derive(Clone, Copy, Debug)]
pub struct CmpOpts {
    /// compare error/warning message texts (false: only their counts)
    pub exact_messages: bool,
    /// compare callback events
    pub events: bool,
    /// compare the Ok payload / Err kind of the call
    pub results: bool,
}

impl Default for CmpOpts {
    fn default() -> Self {
        CmpOpts {
            exact_messages: true,
            events: true,
            results: true,
        }
    }
}

#[derive(Clone, Debug)]
pub struct Divergence {
    pub index: usize,
    pub field: String,
    pub a: Value,
    pub b: Value,
}

impl Divergence {
    pub fn to_json(&self) -> Value {
        json!({"index": self.index, "field": self.field, "a": self.a, "b": self.b})
    }
}

pub fn cmp_rec(i: usize, a: &Rec, b: &Rec, o: &CmpOpts) -> Option<Divergence> {
    let d = |field: &str, x: Value, y: Value| {
        Some(Divergence {
            index: i,
            field: field.to_string(),
            a: x,
            b: y,
        })
    };
    if a.op != b.op {
        return d("op", json!(a.op), json!(b.op));
    }
    if o.results {
        match (&a.res, &b.res) {
            (Ok(x), Ok(y)) => {
                if x != y {
                    return d("result", json!(x), json!(y));
                }
            }
            (Err((kx, mx)), Err((ky, my))) => {
                if kx != ky || (o.exact_messages && mx != my) {
                    return d("error-result", json!([kx, mx]), json!([ky, my]));
                }
            }
            (x, y) => return d("ok-vs-err", json!(format!("{x:?}")), json!(format!("{y:?}"))),
        }
    }
    if a.snap.can_continue != b.snap.can_continue {
        return d("can_continue", json!(a.snap.can_continue), json!(b.snap.can_continue));
    }
    if a.snap.text != b.snap.text {
        return d("text", json!(a.snap.text), json!(b.snap.text));
    }
    if a.snap.tags != b.snap.tags {
        return d("tags", json!(a.snap.tags), json!(b.snap.tags));
    }
    if a.snap.choices != b.snap.choices {
        return d("choices", json!(a.snap.choices), json!(b.snap.choices));
    }
    if o.exact_messages {
        if a.snap.errors != b.snap.errors {
            return d("errors", json!(a.snap.errors), json!(b.snap.errors));
        }
        if a.snap.warnings != b.snap.warnings {
            return d("warnings", json!(a.snap.warnings), json!(b.snap.warnings));
        }
    } else {
        if a.snap.errors.len() != b.snap.errors.len() {
            return d("errors", json!(a.snap.errors), json!(b.snap.errors));
        }
        if a.snap.warnings.len() != b.snap.warnings.len() {
            return d("warnings", json!(a.snap.warnings), json!(b.snap.warnings));
        }
    }
    if o.events {
        if o.exact_messages {
            if a.events != b.events {
                return d("events", json!(a.events), json!(b.events));
            }
        } else if a.events.len() != b.events.len() {
            return d("events", json!(a.events), json!(b.events));
        }
    }
    None
}

pub fn cmp_recs(a: &[Rec], b: &[Rec], o: &CmpOpts) -> Option<Divergence> {
    for i in 0..a.len().min(b.len()) {
        if let Some(d) = cmp_rec(i, &a[i], &b[i], o) {
            return Some(d);
        }
    }
    if a.len() != b.len() {
        return Some(Divergence {
            index: a.len().min(b.len()),
            field: "length".into(),
            a: json!(a.len()),
            b: json!(b.len()),
        });
    }
    None
}

pub fn cmp_state(a: &FullState, b: &FullState, visits: bool) -> Option<Divergence> {
    if a.vars != b.vars {
        for (x, y) in a.vars.iter().zip(b.vars.iter()) {
            if x != y {
                return Some(Divergence {
                    index: usize::MAX,
                    field: format!("var {}", x.0),
                    a: json!(x),
                    b: json!(y),
                });
            }
        }
        return Some(Divergence {
            index: usize::MAX,
            field: "vars".into(),
            a: json!(a.vars),
            b: json!(b.vars),
        });
    }
    if visits && a.visits != b.visits {
        for (x, y) in a.visits.iter().zip(b.visits.iter()) {
            if x != y {
                return Some(Divergence {
                    index: usize::MAX,
                    field: format!("visits {}", x.0),
                    a: json!(x),
                    b: json!(y),
                });
            }
        }
        return Some(Divergence {
            index: usize::MAX,
            field: "visits".into(),
            a: json!(a.visits),
            b: json!(b.visits),
        });
    }
    None
}

/// The differing middle parts of two strings after removing the common prefix and suffix.
pub fn mid_diff(a: &str, b: &str) -> (String, String) {
    let ac: Vec<char> = a.chars().collect();
    let bc: Vec<char> = b.chars().collect();
    let mut p = 0;
    while p < ac.len() && p < bc.len() && ac[p] == bc[p] {
        p += 1;
    }
    let mut s = 0;
    while s < ac.len() - p && s < bc.len() - p && ac[ac.len() - 1 - s] == bc[bc.len() - 1 - s] {
        s += 1;
    }
    (
        ac[p..ac.len() - s].iter().collect(),
        bc[p..bc.len() - s].iter().collect(),
    )
}

pub mod eval;

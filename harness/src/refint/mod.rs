pub mod eval;
pub mod interp;
pub mod ir;

//! Independent evaluator for Ink expressions (numbers, strings, booleans, lists), written from the language's
//! documented rules and the reference engine's published behaviour. Shares no code with /repo.
use std::collections::{BTreeMap, BTreeSet};

#[derive(Clone, Debug, PartialEq)]
pub struct ListV {
    /// (origin list, item name, value)
    pub items: BTreeSet<(String, String, i32)>,
    /// origin lists remembered when the list is empty
    pub empty_origins: BTreeSet<String>,
}

#[derive(Clone, Debug, PartialEq)]
pub enum V {
    Int(i32),
    Float(f32),
    Bool(bool),
    Str(String),
    List(ListV),
}

#[derive(Clone, Debug, PartialEq)]
pub enum Fault {
    DivisionByZero,
    TypeError(String),
    /// the rules do not pin the result down (e.g. comparison of an empty list in a way engines differ on)
    Unspecified(String),
}

pub type R = Result<V, Fault>;

#[derive(Clone, Debug, Default)]
pub struct ListDefs {
    /// list name -> item name -> value
    pub lists: BTreeMap<String, BTreeMap<String, i32>>,
}

impl ListV {
    pub fn empty() -> ListV {
        ListV { items: BTreeSet::new(), empty_origins: BTreeSet::new() }
    }
    pub fn origins(&self) -> BTreeSet<String> {
        if self.items.is_empty() { self.empty_origins.clone() } else { self.items.iter().map(|i| i.0.clone()).collect() }
    }
    fn max_value(&self) -> Option<i32> {
        self.items.iter().map(|i| i.2).max()
    }
    fn min_value(&self) -> Option<i32> {
        self.items.iter().map(|i| i.2).min()
    }
    /// items in printing order: by value, then origin name, then item name
    pub fn ordered(&self) -> Vec<&(String, String, i32)> {
        let mut v: Vec<&(String, String, i32)> = self.items.iter().collect();
        v.sort_by(|a, b| a.2.cmp(&b.2).then(a.0.cmp(&b.0)).then(a.1.cmp(&b.1)));
        v
    }
    /// items with the extreme value (ties: every one of them is acceptable)
    pub fn max_candidates(&self) -> Vec<(String, String, i32)> {
        match self.max_value() {
            None => vec![],
            Some(m) => self.items.iter().filter(|i| i.2 == m).cloned().collect(),
        }
    }
    pub fn min_candidates(&self) -> Vec<(String, String, i32)> {
        match self.min_value() {
            None => vec![],
            Some(m) => self.items.iter().filter(|i| i.2 == m).cloned().collect(),
        }
    }
}

pub fn show(v: &V) -> String {
    match v {
        V::Int(i) => i.to_string(),
        V::Float(f) => {
            // only dyadic rationals are generated: the shortest decimal form is exact
            let s = format!("{f}");
            s
        }
        V::Bool(b) => b.to_string(),
        V::Str(s) => s.clone(),
        V::List(l) => l.ordered().iter().map(|i| i.1.clone()).collect::<Vec<_>>().join(", "),
    }
}

fn rank(v: &V) -> u8 {
    match v {
        V::Bool(_) => 0,
        V::Int(_) => 1,
        V::Float(_) => 2,
        V::List(_) => 3,
        V::Str(_) => 4,
    }
}

fn to_int(v: &V) -> Option<i32> {
    match v {
        V::Bool(b) => Some(*b as i32),
        V::Int(i) => Some(*i),
        V::Float(f) => Some(*f as i32),
        _ => None,
    }
}

fn to_float(v: &V) -> Option<f32> {
    match v {
        V::Bool(b) => Some(*b as i32 as f32),
        V::Int(i) => Some(*i as f32),
        V::Float(f) => Some(*f),
        _ => None,
    }
}

fn to_str(v: &V) -> Option<String> {
    match v {
        V::List(_) => None,
        other => Some(show(other)),
    }
}

pub fn truthy(v: &V) -> bool {
    match v {
        V::Bool(b) => *b,
        V::Int(i) => *i != 0,
        V::Float(f) => *f != 0.0,
        V::Str(s) => !s.is_empty(),
        V::List(l) => !l.items.is_empty(),
    }
}

fn contains(a: &ListV, b: &ListV) -> bool {
    if a.items.is_empty() || b.items.is_empty() {
        return false;
    }
    b.items.iter().all(|i| a.items.contains(i))
}

fn list_binary(op: &str, a: &ListV, b: &ListV) -> R {
    let both_origins = |x: &ListV, y: &ListV| -> BTreeSet<String> { x.origins().union(&y.origins()).cloned().collect() };
    Ok(match op {
        "+" => {
            let items: BTreeSet<_> = a.items.union(&b.items).cloned().collect();
            let _ = both_origins;
            V::List(ListV { items, empty_origins: a.origins() })
        }
        "-" => {
            let items: BTreeSet<_> = a.items.difference(&b.items).cloned().collect();
            V::List(ListV { items, empty_origins: a.origins() })
        }
        "^" => {
            let items: BTreeSet<_> = a.items.intersection(&b.items).cloned().collect();
            V::List(ListV { items, empty_origins: BTreeSet::new() })
        }
        "?" => V::Bool(contains(a, b)),
        "!?" => V::Bool(!contains(a, b)),
        "==" => V::Bool(a.items == b.items),
        "!=" => V::Bool(a.items != b.items),
        ">" => V::Bool(match (a.min_value(), b.max_value()) {
            (None, _) => false,
            (Some(_), None) => true,
            (Some(x), Some(y)) => x > y,
        }),
        "<" => V::Bool(match (a.max_value(), b.min_value()) {
            (_, None) => false,
            (None, Some(_)) => true,
            (Some(x), Some(y)) => x < y,
        }),
        ">=" => V::Bool(match (a.items.is_empty(), b.items.is_empty()) {
            (true, _) => false,
            (false, true) => true,
            _ => a.min_value() >= b.min_value() && a.max_value() >= b.max_value(),
        }),
        "<=" => V::Bool(match (a.items.is_empty(), b.items.is_empty()) {
            (_, true) => false,
            (true, false) => true,
            _ => a.max_value() <= b.max_value() && a.min_value() <= b.min_value(),
        }),
        "&&" => V::Bool(!a.items.is_empty() && !b.items.is_empty()),
        "||" => V::Bool(!a.items.is_empty() || !b.items.is_empty()),
        _ => return Err(Fault::TypeError(format!("operator {op} on lists"))),
    })
}

fn list_shift(defs: &ListDefs, a: &ListV, n: i32) -> V {
    let mut items = BTreeSet::new();
    for (o, _, v) in a.items.iter() {
        let target = v.wrapping_add(n);
        if let Some(def) = defs.lists.get(o) {
            // an item of the same origin with that value (if several share it, engines pick one: handled by callers)
            let mut names: Vec<&String> = def.iter().filter(|(_, val)| **val == target).map(|(k, _)| k).collect();
            names.sort();
            if let Some(name) = names.first() {
                items.insert((o.clone(), (*name).clone(), target));
            }
        }
    }
    // a shifted list is built from scratch: when no item survives it does not remember any origin
    V::List(ListV { items, empty_origins: BTreeSet::new() })
}

pub fn binary(defs: &ListDefs, op: &str, a: &V, b: &V) -> R {
    // lists first: they do not follow the numeric coercion ladder
    match (a, b) {
        (V::List(x), V::List(y)) => return list_binary(op, x, y),
        (V::List(x), V::Int(n)) if op == "+" => return Ok(list_shift(defs, x, *n)),
        (V::List(x), V::Int(n)) if op == "-" => return Ok(list_shift(defs, x, n.wrapping_neg())),
        (V::List(_), other) | (other, V::List(_)) => {
            if op == "&&" {
                return Ok(V::Bool(truthy(a) && truthy(b)));
            }
            if op == "||" {
                return Ok(V::Bool(truthy(a) || truthy(b)));
            }
            let _ = other;
            return Err(Fault::TypeError(format!("operator {op} between a list and a non-list")));
        }
        _ => {}
    }
    let r = rank(a).max(rank(b)).max(1);
    if r == 4 {
        let (x, y) = (to_str(a).unwrap(), to_str(b).unwrap());
        return Ok(match op {
            "+" => V::Str(format!("{x}{y}")),
            "==" => V::Bool(x == y),
            "!=" => V::Bool(x != y),
            "?" => V::Bool(x.contains(&y)),
            "!?" => V::Bool(!x.contains(&y)),
            _ => return Err(Fault::TypeError(format!("operator {op} on strings"))),
        });
    }
    if r == 2 {
        let (x, y) = (to_float(a).unwrap(), to_float(b).unwrap());
        return Ok(match op {
            "+" => V::Float(x + y),
            "-" => V::Float(x - y),
            "*" => V::Float(x * y),
            "/" => V::Float(x / y),
            "%" => V::Float(x % y),
            "==" => V::Bool(x == y),
            "!=" => V::Bool(x != y),
            "<" => V::Bool(x < y),
            "<=" => V::Bool(x <= y),
            ">" => V::Bool(x > y),
            ">=" => V::Bool(x >= y),
            "&&" => V::Bool(x != 0.0 && y != 0.0),
            "||" => V::Bool(x != 0.0 || y != 0.0),
            "MIN" => V::Float(x.min(y)),
            "MAX" => V::Float(x.max(y)),
            "POW" => V::Float(x.powf(y)),
            _ => return Err(Fault::TypeError(format!("operator {op} on floats"))),
        });
    }
    let (x, y) = (to_int(a).unwrap(), to_int(b).unwrap());
    Ok(match op {
        "+" => V::Int(x.wrapping_add(y)),
        "-" => V::Int(x.wrapping_sub(y)),
        "*" => V::Int(x.wrapping_mul(y)),
        "/" => {
            if y == 0 {
                return Err(Fault::DivisionByZero);
            }
            V::Int(x.wrapping_div(y))
        }
        "%" => {
            if y == 0 {
                return Err(Fault::DivisionByZero);
            }
            V::Int(x.wrapping_rem(y))
        }
        "==" => V::Bool(x == y),
        "!=" => V::Bool(x != y),
        "<" => V::Bool(x < y),
        "<=" => V::Bool(x <= y),
        ">" => V::Bool(x > y),
        ">=" => V::Bool(x >= y),
        "&&" => V::Bool(x != 0 && y != 0),
        "||" => V::Bool(x != 0 || y != 0),
        "MIN" => V::Int(x.min(y)),
        "MAX" => V::Int(x.max(y)),
        "POW" => V::Float((x as f32).powf(y as f32)),
        "?" | "!?" => return Err(Fault::TypeError(format!("operator {op} on numbers"))),
        _ => return Err(Fault::TypeError(format!("operator {op} on ints"))),
    })
}

pub fn unary(defs: &ListDefs, op: &str, a: &V) -> R {
    Ok(match (op, a) {
        ("-", V::Int(x)) => V::Int(x.wrapping_neg()),
        ("-", V::Bool(b)) => V::Int((*b as i32).wrapping_neg()),
        ("-", V::Float(x)) => V::Float(-x),
        ("not", V::Int(x)) => V::Bool(*x == 0),
        ("not", V::Bool(b)) => V::Bool(!*b),
        ("not", V::Float(x)) => V::Bool(*x == 0.0),
        ("not", V::List(l)) => V::Int(l.items.is_empty() as i32),
        ("FLOOR", V::Int(x)) => V::Int(*x),
        ("CEILING", V::Int(x)) => V::Int(*x),
        ("INT", V::Int(x)) => V::Int(*x),
        ("FLOAT", V::Int(x)) => V::Float(*x as f32),
        ("FLOOR", V::Float(x)) => V::Float(x.floor()),
        ("CEILING", V::Float(x)) => V::Float(x.ceil()),
        ("INT", V::Float(x)) => V::Int(*x as i32),
        ("FLOAT", V::Float(x)) => V::Float(*x),
        ("FLOOR" | "CEILING" | "INT", V::Bool(b)) => V::Int(*b as i32),
        ("FLOAT", V::Bool(b)) => V::Float(*b as i32 as f32),
        ("LIST_COUNT", V::List(l)) => V::Int(l.items.len() as i32),
        ("LIST_VALUE", V::List(l)) => V::Int(l.max_value().unwrap_or(0)),
        ("LIST_ALL", V::List(l)) => {
            let mut items = BTreeSet::new();
            for o in l.origins() {
                if let Some(def) = defs.lists.get(&o) {
                    for (k, v) in def {
                        items.insert((o.clone(), k.clone(), *v));
                    }
                }
            }
            V::List(ListV { items, empty_origins: l.origins() })
        }
        ("LIST_INVERT", V::List(l)) => {
            let mut items = BTreeSet::new();
            for o in l.origins() {
                if let Some(def) = defs.lists.get(&o) {
                    for (k, v) in def {
                        let it = (o.clone(), k.clone(), *v);
                        if !l.items.contains(&it) {
                            items.insert(it);
                        }
                    }
                }
            }
            // the inverse is a new list: it belongs to the lists of the items it holds, so the inverse of a complete
            // list is a plain empty list (LIST_ALL of it is empty) - reference behaviour
            V::List(ListV { items, empty_origins: BTreeSet::new() })
        }
        (o, v) => return Err(Fault::TypeError(format!("{o} on {v:?}"))),
    })
}

//! Flattening of the generated program (AST) into a small linear instruction list for the reference
//! interpreter. The weave rules (choices collected until a gather, loose ends fall to the next gather of the
//! same or a shallower level, the flow stops after a choice group) are applied here, at source level.
use crate::r#gen::ast::*;
use std::collections::BTreeMap;

pub type Label = usize;

#[derive(Clone, Debug)]
pub enum Ins {
    /// emit the inline pieces of a content line (no newline); the key names the occurrence (sequence counters)
    Pieces(String, Vec<Inline>),
    Newline,
    Jump(Label),
    /// divert written in the source: counts the target's containers as entered
    Divert(Target),
    TunnelCall(String, Vec<Expr>),
    TunnelReturn,
    Thread(String),
    Assign { temp_decl: bool, name: String, op: AssignOp, expr: Expr },
    Return(Option<Expr>),
    Eval(Expr),
    /// conditional jump: if the expression is falsy go to the label
    JumpIfFalse(Expr, Label),
    /// multi-line sequence: jump table by the sequence's own visit count
    SeqJump { id: usize, kind: SeqKind, branches: Vec<Label>, end: Label },
    ChoicePoint(usize),
    /// passing a counted point (labelled gather; choice body start is counted when chosen)
    Count(String),
    /// end of the content of this flow: pending choices are offered, or the story ran out of content
    Stop,
}

#[derive(Clone, Debug)]
pub struct ChoiceInfo {
    pub sticky: bool,
    pub count_key: String,
    pub conds: Vec<Expr>,
    pub start: Vec<Inline>,
    pub choice_only: Option<Vec<Inline>>,
    pub end: Vec<Inline>,
    pub fallback: bool,
    pub body: Label,
}

#[derive(Clone, Debug, Default)]
pub struct Ir {
    pub code: Vec<Ins>,
    pub label_pos: Vec<usize>,
    pub choices: Vec<ChoiceInfo>,
    /// "knot", "knot.stitch" -> label of its first instruction
    pub entries: BTreeMap<String, Label>,
    /// for each instruction index: (knot, stitch or "") it lexically belongs to
    pub scope_of: Vec<(String, String)>,
    pub knot_params: BTreeMap<String, Vec<String>>,
    pub knot_kind: BTreeMap<String, KnotKind>,
    pub seq_count: usize,
    /// full path of every label name: label -> "knot.label" / "knot.stitch.label"
    pub label_paths: BTreeMap<String, String>,
    /// full path of a labelled gather -> where a divert to it continues
    pub label_entries: BTreeMap<String, Label>,
}

/// the end of a content line: whitespace after the last word is not part of the text
fn trim_line_end(xs: &[Inline]) -> Vec<Inline> {
    let mut v = xs.to_vec();
    while let Some(Inline::Text(t)) = v.last() {
        let trimmed = t.trim_end_matches([' ', '\t']).to_string();
        v.pop();
        if !trimmed.is_empty() {
            v.push(Inline::Text(trimmed));
            break;
        }
    }
    v
}

struct Fl<'a> {
    ir: &'a mut Ir,
    knot: String,
    stitch: String,
    anon: usize,
}

impl<'a> Fl<'a> {
    fn new_label(&mut self) -> Label {
        self.ir.label_pos.push(usize::MAX);
        self.ir.label_pos.len() - 1
    }
    fn place(&mut self, l: Label) {
        self.ir.label_pos[l] = self.ir.code.len();
    }
    fn emit(&mut self, i: Ins) {
        self.ir.code.push(i);
        self.ir.scope_of.push((self.knot.clone(), self.stitch.clone()));
    }
    fn scope_path(&self) -> String {
        if self.stitch.is_empty() { self.knot.clone() } else { format!("{}.{}", self.knot, self.stitch) }
    }

    /// Flattens a block. `fall` = where flow goes when the block's last statement is passed.
    fn block(&mut self, stmts: &[Stmt], fall: Option<Label>) {
        let mut i = 0;
        while i < stmts.len() {
            match &stmts[i] {
                Stmt::Choice(_) => {
                    // a group of consecutive choices, then (by construction) a gather or the end of the block
                    let mut j = i;
                    while j < stmts.len() && matches!(stmts[j], Stmt::Choice(_)) {
                        j += 1;
                    }
                    // where loose ends of these choices go: the gather that follows, else the enclosing fall-through
                    let gather_label = if j < stmts.len() && matches!(stmts[j], Stmt::Gather(..)) { Some(self.new_label()) } else { fall };
                    let mut bodies: Vec<(Label, usize, &Choice)> = Vec::new();
                    for st in &stmts[i..j] {
                        let Stmt::Choice(c) = st else { unreachable!() };
                        let body = self.new_label();
                        let key = match &c.label {
                            Some(l) => {
                                let p = format!("{}.{}", self.scope_path(), l);
                                self.ir.label_paths.insert(l.clone(), p.clone());
                                p
                            }
                            None => {
                                self.anon += 1;
                                format!("{}.#c{}", self.scope_path(), self.anon)
                            }
                        };
                        let id = self.ir.choices.len();
                        self.ir.choices.push(ChoiceInfo {
                            sticky: c.sticky,
                            count_key: key,
                            conds: c.conds.clone(),
                            start: c.start.clone(),
                            choice_only: c.choice_only.clone(),
                            end: c.end.clone(),
                            fallback: c.is_fallback(),
                            body,
                        });
                        self.emit(Ins::ChoicePoint(id));
                        bodies.push((body, id, c));
                    }
                    // the flow that generated the choices ends here
                    self.emit(Ins::Stop);
                    for (body, id, c) in bodies {
                        self.place(body);
                        // what choosing prints: the text outside the brackets, then the end of the line
                        if !c.start.is_empty() {
                            self.emit(Ins::Pieces(format!("cs{id}"), c.start.clone()));
                        }
                        if !c.end.is_empty() {
                            self.emit(Ins::Pieces(format!("ce{id}"), c.end.clone()));
                        }
                        if let Some(t) = &c.divert {
                            if !c.start.is_empty() || !c.end.is_empty() {
                                // text that ends in a divert keeps one space before it
                                self.emit(Ins::Pieces(format!("cd{id}"), vec![Inline::Text(" ".into())]));
                            }
                            self.emit(Ins::Divert(t.clone()));
                        } else {
                            self.emit(Ins::Newline);
                            self.block(&c.body, gather_label);
                            match gather_label {
                                Some(g) => self.emit(Ins::Jump(g)),
                                None => self.emit(Ins::Stop),
                            }
                        }
                    }
                    if j < stmts.len() && matches!(stmts[j], Stmt::Gather(..)) {
                        self.place(gather_label.unwrap());
                    }
                    i = j;
                    continue;
                }
                Stmt::Gather(label, xs, d) => {
                    if let Some(l) = label {
                        let p = format!("{}.{}", self.scope_path(), l);
                        self.ir.label_paths.insert(l.clone(), p.clone());
                        let entry = self.new_label();
                        self.place(entry);
                        self.ir.label_entries.insert(p.clone(), entry);
                        self.emit(Ins::Count(p));
                    }
                    if !xs.is_empty() {
                        let k = format!("L{}", self.ir.code.len());
                        self.emit(Ins::Pieces(k, trim_line_end(xs)));
                    }
                    match d {
                        Some(t) => {
                            if !xs.is_empty() {
                                self.emit(Ins::Pieces("sp".into(), vec![Inline::Text(" ".into())]));
                            }
                            self.emit(Ins::Divert(t.clone()))
                        }
                        None => {
                            if !xs.is_empty() {
                                self.emit(Ins::Newline);
                            }
                        }
                    }
                }
                Stmt::Line(xs, d) => {
                    let k = format!("L{}", self.ir.code.len());
                    self.emit(Ins::Pieces(k, trim_line_end(xs)));
                    match d {
                        Some(t) => {
                            self.emit(Ins::Pieces("sp".into(), vec![Inline::Text(" ".into())]));
                            self.emit(Ins::Divert(t.clone()))
                        }
                        None => self.emit(Ins::Newline),
                    }
                }
                Stmt::Divert(t) => self.emit(Ins::Divert(t.clone())),
                Stmt::Tunnel(t, args) => self.emit(Ins::TunnelCall(t.clone(), args.clone())),
                Stmt::TunnelReturn => self.emit(Ins::TunnelReturn),
                Stmt::Thread(t) => self.emit(Ins::Thread(t.clone())),
                Stmt::Assign { temp_decl, name, op, expr } => self.emit(Ins::Assign { temp_decl: *temp_decl, name: name.clone(), op: *op, expr: expr.clone() }),
                Stmt::Return(e) => self.emit(Ins::Return(e.clone())),
                Stmt::Eval(e) => self.emit(Ins::Eval(e.clone())),
                Stmt::If(branches, els) => {
                    let end = self.new_label();
                    for (c, b) in branches {
                        let next = self.new_label();
                        self.emit(Ins::JumpIfFalse(c.clone(), next));
                        // a branch written on its own lines starts on a new line
                        self.emit(Ins::Newline);
                        self.block(b, Some(end));
                        self.emit(Ins::Jump(end));
                        self.place(next);
                    }
                    if let Some(b) = els {
                        self.emit(Ins::Newline);
                        self.block(b, Some(end));
                    }
                    self.place(end);
                    // the line that closes the block ends like any other line
                    self.emit(Ins::Newline);
                }
                Stmt::SeqBlock(kind, alts) => {
                    let end = self.new_label();
                    let labels: Vec<Label> = alts.iter().map(|_| self.new_label()).collect();
                    let id = self.ir.seq_count;
                    self.ir.seq_count += 1;
                    self.emit(Ins::SeqJump { id, kind: *kind, branches: labels.clone(), end });
                    for (l, a) in labels.iter().zip(alts.iter()) {
                        self.place(*l);
                        if !a.is_empty() {
                            self.emit(Ins::Newline);
                        }
                        self.block(a, Some(end));
                        self.emit(Ins::Jump(end));
                    }
                    self.place(end);
                    self.emit(Ins::Newline);
                }
            }
            i += 1;
        }
    }
}

pub fn flatten(p: &Program) -> Ir {
    let mut ir = Ir::default();
    // root
    {
        let mut f = Fl { ir: &mut ir, knot: String::new(), stitch: String::new(), anon: 0 };
        let l = f.new_label();
        f.place(l);
        f.ir.entries.insert(String::new(), l);
        f.block(&p.root, None);
        f.emit(Ins::Stop);
    }
    for k in p.knots.iter() {
        ir.knot_params.insert(k.name.clone(), k.params.clone());
        ir.knot_kind.insert(k.name.clone(), k.kind);
        let mut f = Fl { ir: &mut ir, knot: k.name.clone(), stitch: String::new(), anon: 0 };
        let l = f.new_label();
        f.place(l);
        f.ir.entries.insert(k.name.clone(), l);
        f.block(&k.body, None);
        f.emit(Ins::Stop);
        for s in k.stitches.iter() {
            f.stitch = s.name.clone();
            let l = f.new_label();
            f.place(l);
            f.ir.entries.insert(format!("{}.{}", k.name, s.name), l);
            f.block(&s.body, None);
            f.emit(Ins::Stop);
        }
    }
    for x in p.externals.iter() {
        if let Some(b) = &x.fallback {
            ir.knot_params.insert(x.name.clone(), x.params.clone());
            ir.knot_kind.insert(x.name.clone(), KnotKind::Function);
            let mut f = Fl { ir: &mut ir, knot: x.name.clone(), stitch: String::new(), anon: 0 };
            let l = f.new_label();
            f.place(l);
            f.ir.entries.insert(x.name.clone(), l);
            f.block(b, None);
            f.emit(Ins::Stop);
        }
    }
    ir
}

//! Source-level reference interpreter for generated Ink programs. It executes the program text's meaning
//! (the AST the source was rendered from) strictly sequentially: no look-ahead, no snapshots, no rewinding,
//! no compiled containers. Shares no code with /repo.
//!
//! Output rules implemented here are the language's: newline de-duplication, glue, whitespace collapsing,
//! trimming of a function's leading/trailing whitespace, choice text = text before + inside the brackets,
//! chosen output = text before + after the brackets; once-only / sticky / conditional / fallback choices;
//! read counts go up when the flow enters a knot or stitch from outside it, when a labelled gather is
//! passed and when a choice is chosen; the turn counter goes up with every choice the player makes.
use super::eval::{Fault, ListDefs, V, binary, show, truthy, unary};
use super::ir::{Ins, Ir};
use crate::r#gen::ast::*;
use std::collections::BTreeMap;
use std::rc::Rc;

#[derive(Clone, Debug, PartialEq)]
enum Tok {
    Text(String),
    Newline,
    Glue,
    Tag(String),
    /// start of a string evaluation (choice text)
    BeginStr,
}

#[derive(Clone, Debug, PartialEq)]
enum FrameKind {
    Flow,
    Tunnel,
}

#[derive(Clone, Debug)]
struct Frame {
    kind: FrameKind,
    temps: BTreeMap<String, V>,
    ret_pc: usize,
}

#[derive(Clone, Debug)]
struct Thread {
    frames: Vec<Frame>,
    pc: usize,
    /// where the instruction executed before the current one was written (knot, stitch)
    prev_scope: (String, String),
}

#[derive(Clone, Debug)]
struct FnFrame {
    temps: BTreeMap<String, V>,
    /// stream index where the function started, -1 once it has printed visible text
    start: isize,
}

#[derive(Clone, Debug)]
struct GenChoice {
    id: usize,
    /// where the flow was just before the choice was generated: the text and conditions of a choice are evaluated
    /// at the choice itself, but a bare fallback (`* ->`) has nothing to evaluate, so for it this is whatever ran
    /// before - possibly the divert that entered the knot
    from_scope: (String, String),
    text: String,
    tags: Vec<String>,
    invisible: bool,
    thread: Thread,
}

#[derive(Clone, Debug, PartialEq)]
pub enum Status {
    Running,
    /// waiting for a choice
    Choices,
    /// -> END
    Ended,
    /// -> DONE / no more content after the last choice was taken, nothing left to choose
    Done,
    /// the story ran out of content in a place where that is an error
    RanOut,
    /// something this interpreter does not model: the case is skipped, never reported
    Unsupported(String),
    /// a runtime fault the language defines (division by zero, ...)
    Fault(String),
    Fuel,
}

#[derive(Clone, Debug, PartialEq)]
pub struct Segment {
    /// (text, tags) per line, in order
    pub lines: Vec<(String, Vec<String>)>,
    pub choices: Vec<String>,
    pub choice_tags: Vec<Vec<String>>,
    pub status: Status,
}

#[derive(Clone)]
pub struct Refint {
    ir: Rc<Ir>,
    defs: Rc<ListDefs>,
    pub globals: BTreeMap<String, V>,
    pub visits: BTreeMap<String, i32>,
    turn_of: BTreeMap<String, i32>,
    turn: i32,
    seq_counts: BTreeMap<String, i32>,
    threads: Vec<Thread>,
    fn_frames: Vec<FnFrame>,
    choices: Vec<GenChoice>,
    stream: Vec<Tok>,
    status: Status,
    fuel: u64,
    /// things that happened (coverage): feature name -> count
    pub seen: BTreeMap<&'static str, u64>,
}

type E<T> = Result<T, Status>;

fn contains_call(e: &Expr) -> bool {
    match e {
        // anything written with call syntax, built-in or not
        Expr::Call(..) | Expr::ChoiceCount | Expr::TurnsSince(_) | Expr::Turns => true,
        Expr::Bin(a, _, b) => contains_call(a) || contains_call(b),
        Expr::Not(a) | Expr::Neg(a) => contains_call(a),
        _ => false,
    }
}

fn is_ws(s: &str) -> bool {
    s.chars().all(|c| c == ' ' || c == '\t')
}

/// the whitespace rule for delivered text: runs of spaces/tabs become one space, none at line start or end
pub fn clean_whitespace(s: &str) -> String {
    let mut out = String::new();
    for (li, line) in s.split('\n').enumerate() {
        if li > 0 {
            out.push('\n');
        }
        let words: Vec<&str> = line.split([' ', '\t']).filter(|w| !w.is_empty()).collect();
        out.push_str(&words.join(" "));
    }
    out
}

impl Refint {
    pub fn new(p: &Program, ir: Rc<Ir>, fuel: u64) -> Refint {
        let mut r = Refint {
            ir,
            defs: Rc::new(ListDefs::default()),
            globals: BTreeMap::new(),
            visits: BTreeMap::new(),
            turn_of: BTreeMap::new(),
            turn: 0,
            seq_counts: BTreeMap::new(),
            threads: vec![],
            fn_frames: vec![],
            choices: vec![],
            stream: vec![],
            status: Status::Running,
            fuel,
            seen: BTreeMap::new(),
        };
        for (n, e) in p.globals.iter() {
            let v = match e {
                Expr::Int(i) => V::Int(*i),
                Expr::Bool(b) => V::Bool(*b),
                Expr::Str(s) => V::Str(s.clone()),
                _ => {
                    r.status = Status::Unsupported("global initialiser".into());
                    V::Int(0)
                }
            };
            r.globals.insert(n.clone(), v);
        }
        let start = r.ir.label_pos[r.ir.entries[""]];
        r.threads.push(Thread { frames: vec![Frame { kind: FrameKind::Flow, temps: BTreeMap::new(), ret_pc: 0 }], pc: start, prev_scope: (String::new(), String::new()) });
        r
    }

    /// like `new`, for programs whose globals include kinds this interpreter does not model (lists, divert
    /// targets): those are simply absent, and any use of them makes the evaluation unsupported
    pub fn new_lenient(p: &Program, ir: Rc<Ir>, fuel: u64) -> Refint {
        let mut r = Refint::new(p, ir, fuel);
        r.status = Status::Running;
        r.globals.retain(|n, _| p.globals.iter().any(|(g, e)| g == n && matches!(e, Expr::Int(_) | Expr::Bool(_) | Expr::Str(_))));
        r
    }

    fn note(&mut self, k: &'static str) {
        *self.seen.entry(k).or_insert(0) += 1;
    }

    // ------------------------------------------------------------------ output stream

    fn ends_in_newline(&self) -> bool {
        for t in self.stream.iter().rev() {
            match t {
                Tok::BeginStr => return false,
                Tok::Newline => return true,
                Tok::Text(s) if !is_ws(s) => return false,
                _ => {}
            }
        }
        false
    }

    fn contains_content(&self) -> bool {
        self.stream.iter().any(|t| matches!(t, Tok::Text(_) | Tok::Newline))
    }

    fn push_glue(&mut self) {
        // glue eats the line break before it (and the whitespace around that break)
        let mut remove_from: Option<usize> = None;
        for i in (0..self.stream.len()).rev() {
            match &self.stream[i] {
                Tok::BeginStr => break,
                Tok::Text(s) if !is_ws(s) => break,
                Tok::Newline => remove_from = Some(i),
                _ => {}
            }
        }
        if let Some(from) = remove_from {
            let mut i = from;
            while i < self.stream.len() {
                if matches!(self.stream[i], Tok::Text(_) | Tok::Newline) {
                    self.stream.remove(i);
                } else {
                    i += 1;
                }
            }
            self.note("glue-removed-newline");
        }
        self.stream.push(Tok::Glue);
    }

    fn push_text_tok(&mut self, tok: Tok) {
        let (is_newline, non_ws) = match &tok {
            Tok::Newline => (true, false),
            Tok::Text(s) => (false, !is_ws(s)),
            _ => unreachable!(),
        };
        // where does the current function call begin?
        let mut fn_trim: isize = match self.fn_frames.last() {
            Some(f) => f.start,
            None => -1,
        };
        // the latest glue, unless a string evaluation started after it
        let mut glue_trim: isize = -1;
        for i in (0..self.stream.len()).rev() {
            match &self.stream[i] {
                Tok::Glue => {
                    glue_trim = i as isize;
                    break;
                }
                Tok::BeginStr => {
                    if i as isize >= fn_trim {
                        fn_trim = -1;
                    }
                    break;
                }
                _ => {}
            }
        }
        let trim = if glue_trim != -1 && fn_trim != -1 { glue_trim.min(fn_trim) } else if glue_trim != -1 { glue_trim } else { fn_trim };
        let mut include = true;
        if trim != -1 {
            if is_newline {
                include = false;
                self.note("newline-dropped-by-glue-or-function-start");
            } else if non_ws {
                if glue_trim > -1 {
                    // visible text ends the glue
                    let mut i = self.stream.len();
                    while i > 0 {
                        i -= 1;
                        match self.stream[i] {
                            Tok::Glue => {
                                self.stream.remove(i);
                            }
                            Tok::BeginStr => break,
                            _ => {}
                        }
                    }
                }
                if fn_trim > -1 {
                    for f in self.fn_frames.iter_mut() {
                        f.start = -1;
                    }
                }
            }
        } else if is_newline && (self.ends_in_newline() || !self.contains_content()) {
            include = false;
        }
        if include {
            self.stream.push(tok);
        }
    }

    fn push_text(&mut self, s: &str) {
        if s.is_empty() {
            return;
        }
        // a text never carries its own line breaks here except through string values
        let mut first = true;
        for part in s.split('\n') {
            if !first {
                self.push_text_tok(Tok::Newline);
            }
            first = false;
            if !part.is_empty() {
                self.push_text_tok(Tok::Text(part.to_string()));
            }
        }
    }

    fn trim_function_end(&mut self, start: isize) {
        let from = if start < 0 { 0 } else { start as usize };
        let mut i = self.stream.len();
        while i > from {
            i -= 1;
            match &self.stream[i] {
                Tok::BeginStr => break,
                Tok::Newline => {
                    self.stream.remove(i);
                }
                Tok::Text(s) if is_ws(s) => {
                    self.stream.remove(i);
                }
                Tok::Text(_) => break,
                _ => {}
            }
        }
    }

    /// splits the finished stream of one segment into lines with their tags
    fn deliver(&mut self) -> Vec<(String, Vec<String>)> {
        let mut text = String::new();
        let mut tags_at: Vec<(usize, String)> = Vec::new();
        let mut nl = 0;
        for t in self.stream.iter() {
            match t {
                Tok::Text(s) => text.push_str(s),
                Tok::Newline => {
                    text.push('\n');
                    nl += 1;
                }
                Tok::Tag(s) => tags_at.push((nl, s.clone())),
                _ => {}
            }
        }
        self.stream.clear();
        let cleaned = clean_whitespace(&text);
        let mut lines: Vec<(String, Vec<String>)> = cleaned.split('\n').map(|l| (l.to_string(), vec![])).collect();
        for (i, t) in tags_at {
            while lines.len() <= i {
                lines.push((String::new(), vec![]));
            }
            lines[i].1.push(t);
        }
        lines.into_iter().filter(|l| !l.0.is_empty() || !l.1.is_empty()).collect()
    }

    // ------------------------------------------------------------------ variables, counts

    fn get_var(&self, name: &str) -> E<V> {
        if let Some(f) = self.fn_frames.last() {
            if let Some(v) = f.temps.get(name) {
                return Ok(v.clone());
            }
        } else if let Some(v) = self.threads.last().and_then(|t| t.frames.last()).and_then(|f| f.temps.get(name)) {
            return Ok(v.clone());
        }
        match self.globals.get(name) {
            Some(v) => Ok(v.clone()),
            None => Err(Status::Unsupported(format!("unknown variable {name}"))),
        }
    }

    fn set_var(&mut self, name: &str, v: V, declare_temp: bool) -> E<()> {
        if let Some(f) = self.fn_frames.last_mut() {
            if declare_temp || f.temps.contains_key(name) {
                f.temps.insert(name.to_string(), v);
                return Ok(());
            }
        } else if let Some(f) = self.threads.last_mut().and_then(|t| t.frames.last_mut())
            && (declare_temp || f.temps.contains_key(name))
        {
            f.temps.insert(name.to_string(), v);
            return Ok(());
        }
        if self.globals.contains_key(name) {
            self.globals.insert(name.to_string(), v);
            Ok(())
        } else {
            Err(Status::Unsupported(format!("assignment to unknown variable {name}")))
        }
    }

    fn count(&mut self, key: &str) {
        *self.visits.entry(key.to_string()).or_insert(0) += 1;
        self.turn_of.insert(key.to_string(), self.turn);
    }

    /// the flow goes from an instruction in `from` (knot, stitch) to the start of a knot or stitch
    fn enter(&mut self, from: &(String, String), target: &str) -> E<usize> {
        // a labelled gather: the flow continues at the gather (which counts itself); knots and stitches are not
        // re-entered, the label lies inside the one the flow is in
        let as_label = self.ir.label_paths.get(target).cloned().unwrap_or_else(|| target.to_string());
        if let Some(l) = self.ir.label_entries.get(&as_label).copied() {
            self.note("divert-to-labelled-gather");
            return Ok(self.ir.label_pos[l]);
        }
        // a bare name may be a stitch of the knot the flow is in
        let qualified;
        let target = if !self.ir.entries.contains_key(target) && self.ir.entries.contains_key(&format!("{}.{}", from.0, target)) {
            qualified = format!("{}.{}", from.0, target);
            qualified.as_str()
        } else {
            target
        };
        let (tk, ts) = match target.split_once('.') {
            Some((k, s)) => (k.to_string(), s.to_string()),
            None => (target.to_string(), String::new()),
        };
        let l = match self.ir.entries.get(target) {
            Some(l) => *l,
            None => return Err(Status::Unsupported(format!("divert target {target}"))),
        };
        if from.0 != tk {
            self.count(&tk);
            self.note("knot-entered");
        } else if ts.is_empty() {
            self.note("knot-re-entered-from-inside");
        }
        if !ts.is_empty() {
            if !(from.0 == tk && from.1 == ts) {
                self.count(&format!("{tk}.{ts}"));
                self.note("stitch-entered");
            } else {
                self.note("stitch-re-entered-from-inside");
            }
        }
        Ok(self.ir.label_pos[l])
    }

    fn resolve_count_path(&self, p: &str) -> String {
        if let Some(full) = self.ir.label_paths.get(p) {
            return full.clone();
        }
        // "knot.label" / "knot.stitch.label": the last component may be a label
        if let Some((_, last)) = p.rsplit_once('.')
            && let Some(full) = self.ir.label_paths.get(last)
        {
            return full.clone();
        }
        p.to_string()
    }

    // ------------------------------------------------------------------ expressions

    fn fault(f: Fault) -> Status {
        match f {
            Fault::DivisionByZero => Status::Fault("division by zero".into()),
            Fault::TypeError(s) => Status::Fault(format!("type error {s}")),
            Fault::Unspecified(s) => Status::Unsupported(format!("unspecified {s}")),
        }
    }

    fn eval(&mut self, e: &Expr, scope: &(String, String)) -> E<Option<V>> {
        Ok(Some(match e {
            Expr::Int(i) => V::Int(*i),
            Expr::Bool(b) => V::Bool(*b),
            Expr::Str(s) => V::Str(s.clone()),
            Expr::Float(f) => V::Float(*f),
            Expr::Var(n) => self.get_var(n)?,
            Expr::Bin(a, op, b) => {
                // both operands are always evaluated (Ink has no short-circuit), left first
                let x = self.eval(a, scope)?.ok_or(Status::Unsupported("void operand".into()))?;
                let y = self.eval(b, scope)?.ok_or(Status::Unsupported("void operand".into()))?;
                binary(&self.defs, op.sym(), &x, &y).map_err(Self::fault)?
            }
            Expr::Not(a) => {
                let x = self.eval(a, scope)?.ok_or(Status::Unsupported("void operand".into()))?;
                unary(&self.defs, "not", &x).map_err(Self::fault)?
            }
            Expr::Neg(a) => {
                let x = self.eval(a, scope)?.ok_or(Status::Unsupported("void operand".into()))?;
                unary(&self.defs, "-", &x).map_err(Self::fault)?
            }
            Expr::Call(f, args) => {
                if self.ir.knot_kind.get(f) != Some(&KnotKind::Function) {
                    return Err(Status::Unsupported(format!("call of {f}")));
                }
                let mut vals = Vec::new();
                for a in args {
                    vals.push(self.eval(a, scope)?.ok_or(Status::Unsupported("void argument".into()))?);
                }
                return self.call_function(f, vals, scope);
            }
            Expr::ReadCount(p) => {
                let key = self.resolve_count_path(p);
                V::Int(*self.visits.get(&key).unwrap_or(&0))
            }
            Expr::TurnsSince(p) => {
                let key = self.resolve_count_path(p);
                self.note("turns-since");
                match self.turn_of.get(&key) {
                    Some(t) => V::Int(self.turn - t),
                    None => V::Int(-1),
                }
            }
            Expr::ChoiceCount => V::Int(self.choices.len() as i32),
            Expr::Turns => V::Int(self.turn),
            Expr::ListLit(_) | Expr::Target(_) => return Err(Status::Unsupported("list/divert value".into())),
        }))
    }

    fn burn(&mut self) -> E<()> {
        if self.fuel == 0 {
            return Err(Status::Fuel);
        }
        self.fuel -= 1;
        Ok(())
    }

    fn call_function(&mut self, name: &str, args: Vec<V>, from: &(String, String)) -> E<Option<V>> {
        self.note("function-call");
        let params = self.ir.knot_params.get(name).cloned().unwrap_or_default();
        if params.len() != args.len() {
            return Err(Status::Unsupported("arity".into()));
        }
        let mut pc = self.enter(from, name)?;
        let temps: BTreeMap<String, V> = params.into_iter().zip(args).collect();
        if !self.fn_frames.is_empty() {
            self.note("nested-function-call");
        }
        self.fn_frames.push(FnFrame { temps, start: self.stream.len() as isize });
        let ir = self.ir.clone();
        let mut result: Option<V> = None;
        loop {
            self.burn()?;
            let scope = ir.scope_of[pc].clone();
            match &ir.code[pc] {
                Ins::Pieces(key, xs) => {
                    self.emit_pieces(key, xs, &scope)?;
                    self.note("function-text");
                    pc += 1;
                }
                Ins::Newline => {
                    self.push_text_tok(Tok::Newline);
                    pc += 1;
                }
                Ins::Jump(l) => pc = ir.label_pos[*l],
                Ins::Assign { temp_decl, name, op, expr } => {
                    self.assign(*temp_decl, name, *op, expr, &scope)?;
                    pc += 1;
                }
                Ins::Eval(e) => {
                    self.eval(e, &scope)?;
                    if contains_call(e) {
                        self.push_text_tok(Tok::Newline);
                    }
                    pc += 1;
                }
                Ins::JumpIfFalse(c, l) => {
                    let v = self.eval(c, &scope)?.ok_or(Status::Unsupported("void condition".into()))?;
                    if truthy(&v) { pc += 1 } else { pc = ir.label_pos[*l] }
                }
                Ins::SeqJump { id, kind, branches, end } => pc = self.seq_jump(*id, *kind, branches, *end),
                Ins::Return(e) => {
                    if let Some(e) = e {
                        result = self.eval(e, &scope)?;
                    }
                    break;
                }
                Ins::Stop => break,
                other => return Err(Status::Unsupported(format!("{other:?} inside a function"))),
            }
        }
        let f = self.fn_frames.pop().unwrap();
        self.trim_function_end(f.start);
        Ok(result)
    }

    fn seq_index(&mut self, key: &str, kind: SeqKind, n: usize) -> Option<usize> {
        let c = self.seq_counts.entry(key.to_string()).or_insert(0);
        let count = *c as usize;
        *c += 1;
        match kind {
            SeqKind::Stopping => Some(count.min(n - 1)),
            SeqKind::Cycle => Some(count % n),
            SeqKind::Once => {
                if count < n {
                    Some(count)
                } else {
                    None
                }
            }
            SeqKind::Shuffle => None,
        }
    }

    fn seq_jump(&mut self, id: usize, kind: SeqKind, branches: &[usize], end: usize) -> usize {
        self.note("block-sequence");
        match self.seq_index(&format!("B{id}"), kind, branches.len()) {
            Some(i) => self.ir.label_pos[branches[i]],
            None => self.ir.label_pos[end],
        }
    }

    fn assign(&mut self, temp_decl: bool, name: &str, op: AssignOp, expr: &Expr, scope: &(String, String)) -> E<()> {
        let v = self.eval(expr, scope)?.ok_or(Status::Unsupported("void assigned".into()))?;
        let v = match op {
            AssignOp::Set => v,
            AssignOp::Add => binary(&self.defs, "+", &self.get_var(name)?, &v).map_err(Self::fault)?,
            AssignOp::Sub => binary(&self.defs, "-", &self.get_var(name)?, &v).map_err(Self::fault)?,
        };
        self.set_var(name, v, temp_decl)?;
        if contains_call(expr) {
            // a logic line that calls a function may print: it ends the line it printed
            self.push_text_tok(Tok::Newline);
        }
        Ok(())
    }

    fn emit_pieces(&mut self, key: &str, xs: &[Inline], scope: &(String, String)) -> E<()> {
        // text written next to each other in the source is one piece of text
        let mut pending = String::new();
        for (i, x) in xs.iter().enumerate() {
            if let Inline::Text(t) = x {
                pending.push_str(t);
                continue;
            }
            if let Inline::Tag(_) = x {
                // as written: a space, then the tag
                pending.push(' ');
            }
            if let Inline::Cond(..) = x {
                // nothing: the space after the colon belongs to the branch, see below
            }
            if !pending.is_empty() {
                let p = std::mem::take(&mut pending);
                self.push_text(&p);
            }
            match x {
                Inline::Text(_) => {}
                Inline::Expr(e) => {
                    if let Some(v) = self.eval(e, scope)? {
                        let s = show(&v);
                        self.push_text(&s);
                    }
                }
                Inline::Cond(c, a, b) => {
                    let v = self.eval(c, scope)?.ok_or(Status::Unsupported("void condition".into()))?;
                    self.note("inline-conditional");
                    if truthy(&v) {
                        // as written: "{cond: text}" - the space after the colon belongs to the text
                        let mut a2 = vec![Inline::Text(" ".into())];
                        a2.extend(a.iter().cloned());
                        self.emit_pieces(&format!("{key}/{i}a"), &a2, scope)?;
                    } else if let Some(b) = b {
                        self.emit_pieces(&format!("{key}/{i}b"), b, scope)?;
                    }
                }
                Inline::Seq(kind, alts) => {
                    if *kind == SeqKind::Shuffle {
                        return Err(Status::Unsupported("shuffle".into()));
                    }
                    self.note("inline-sequence");
                    if let Some(j) = self.seq_index(&format!("{key}/{i}"), *kind, alts.len()) {
                        self.emit_pieces(&format!("{key}/{i}/{j}"), &alts[j], scope)?;
                    }
                }
                Inline::Glue => {
                    self.note("glue");
                    self.push_glue()
                }
                Inline::Tag(t) => {
                    self.note("tag");
                    self.stream.push(Tok::Tag(t.clone()))
                }
            }
        }
        if !pending.is_empty() {
            self.push_text(&pending);
        }
        Ok(())
    }

    /// text and tags of a piece of choice text
    fn eval_string(&mut self, key: &str, xs: &[Inline], scope: &(String, String)) -> E<(String, Vec<String>)> {
        self.stream.push(Tok::BeginStr);
        self.emit_pieces(key, xs, scope)?;
        let mut parts = Vec::new();
        let mut tags = Vec::new();
        while let Some(t) = self.stream.pop() {
            match t {
                Tok::BeginStr => break,
                Tok::Text(s) => parts.push(s),
                Tok::Newline => parts.push("\n".into()),
                Tok::Tag(t) => tags.push(t),
                _ => {}
            }
        }
        parts.reverse();
        tags.reverse();
        Ok((parts.concat(), tags))
    }

    // ------------------------------------------------------------------ flow

    fn choice_point(&mut self, id: usize, scope: &(String, String)) -> E<()> {
        let info = self.ir.choices[id].clone();
        let (start, mut tags) = self.eval_string(&format!("cs{id}"), &info.start, scope)?;
        let only = match &info.choice_only {
            Some(xs) => {
                let (t, more) = self.eval_string(&format!("co{id}"), xs, scope)?;
                tags.extend(more);
                t
            }
            None => String::new(),
        };
        let mut ok = true;
        for c in info.conds.iter() {
            let v = self.eval(c, scope)?.ok_or(Status::Unsupported("void condition".into()))?;
            self.note("choice-condition");
            if !truthy(&v) {
                ok = false;
            }
        }
        if !info.sticky && *self.visits.get(&info.count_key).unwrap_or(&0) > 0 {
            self.note("once-only-choice-used-up");
            ok = false;
        }
        if !ok {
            return Ok(());
        }
        let mut thread = self.threads.last().unwrap().clone();
        thread.pc = self.ir.label_pos[info.body];
        let text = format!("{start}{only}").trim_matches([' ', '\t']).to_string();
        if self.threads.len() > 1 {
            self.note("choice-generated-in-thread");
        }
        if thread.frames.len() > 1 {
            self.note("choice-generated-in-tunnel");
        }
        let from_scope = if info.fallback && info.conds.is_empty() { self.threads.last().unwrap().prev_scope.clone() } else { scope.clone() };
        self.choices.push(GenChoice { id, from_scope, text, tags, invisible: info.fallback, thread });
        Ok(())
    }

    fn take(&mut self, c: GenChoice) {
        let key = self.ir.choices[c.id].count_key.clone();
        // taking a choice is a move to its content: knot and stitch count if the flow was outside them just before
        // the choice was generated (only a bare fallback written first in its knot can be in that situation)
        let target = self.ir.scope_of[c.thread.pc].clone();
        if c.from_scope.0 != target.0 && !target.0.is_empty() {
            self.count(&target.0.clone());
            self.note("knot-counted-again-by-a-fallback-written-first");
        }
        if !target.1.is_empty() && c.from_scope != target {
            self.count(&format!("{}.{}", target.0, target.1));
        }
        self.threads = vec![c.thread];
        self.choices.clear();
        self.count(&key);
    }

    /// runs until the story needs a choice or stops
    fn run(&mut self) -> E<()> {
        let ir = self.ir.clone();
        loop {
            self.burn()?;
            let pc = self.threads.last().unwrap().pc;
            let scope = ir.scope_of[pc].clone();
            let mut next = pc + 1;
            let mut stop = false;
            match &ir.code[pc] {
                Ins::Pieces(key, xs) => self.emit_pieces(key, xs, &scope)?,
                Ins::Newline => self.push_text_tok(Tok::Newline),
                Ins::Jump(l) => next = ir.label_pos[*l],
                Ins::Divert(Target::Named(n)) => next = self.enter(&scope, n)?,
                Ins::Divert(Target::End) => {
                    self.choices.clear();
                    self.status = Status::Ended;
                    return Ok(());
                }
                Ins::Divert(Target::Done) => stop = true,
                Ins::Divert(Target::Var(_)) => return Err(Status::Unsupported("variable divert".into())),
                Ins::TunnelCall(t, args) => {
                    let mut vals = Vec::new();
                    for a in args {
                        vals.push(self.eval(a, &scope)?.ok_or(Status::Unsupported("void argument".into()))?);
                    }
                    let params = ir.knot_params.get(t).cloned().unwrap_or_default();
                    if params.len() != vals.len() {
                        return Err(Status::Unsupported("arity".into()));
                    }
                    next = self.enter(&scope, t)?;
                    self.note("tunnel-call");
                    let th = self.threads.last_mut().unwrap();
                    th.frames.push(Frame { kind: FrameKind::Tunnel, temps: params.into_iter().zip(vals).collect(), ret_pc: pc + 1 });
                }
                Ins::TunnelReturn => {
                    let th = self.threads.last_mut().unwrap();
                    match th.frames.pop() {
                        Some(f) if f.kind == FrameKind::Tunnel => next = f.ret_pc,
                        _ => return Err(Status::Unsupported("tunnel return outside a tunnel".into())),
                    }
                    self.note("tunnel-return");
                }
                Ins::Thread(t) => {
                    self.note("thread-started");
                    self.threads.last_mut().unwrap().pc = pc + 1;
                    let mut th = self.threads.last().unwrap().clone();
                    th.pc = self.enter(&scope, t)?;
                    th.prev_scope = scope.clone();
                    self.threads.last_mut().unwrap().prev_scope = scope.clone();
                    self.threads.push(th);
                    continue;
                }
                Ins::Assign { temp_decl, name, op, expr } => self.assign(*temp_decl, name, *op, expr, &scope)?,
                Ins::Eval(e) => {
                    self.eval(e, &scope)?;
                    if contains_call(e) {
                        self.push_text_tok(Tok::Newline);
                    }
                }
                Ins::Return(_) => return Err(Status::Unsupported("return outside a function".into())),
                Ins::JumpIfFalse(c, l) => {
                    let v = self.eval(c, &scope)?.ok_or(Status::Unsupported("void condition".into()))?;
                    self.note("block-conditional");
                    if !truthy(&v) {
                        next = ir.label_pos[*l];
                    }
                }
                Ins::SeqJump { id, kind, branches, end } => {
                    if *kind == SeqKind::Shuffle {
                        return Err(Status::Unsupported("shuffle".into()));
                    }
                    next = self.seq_jump(*id, *kind, branches, *end)
                }
                Ins::ChoicePoint(id) => self.choice_point(*id, &scope)?,
                Ins::Count(p) => {
                    self.note("labelled-gather-passed");
                    self.count(p)
                }
                Ins::Stop => stop = true,
            }
            if stop {
                if self.threads.len() > 1 {
                    // a thread that has said everything it had to say: the flow that started it goes on
                    self.threads.pop();
                    self.note("thread-finished");
                    continue;
                }
                let explicit_done = matches!(ir.code[pc], Ins::Divert(Target::Done));
                // nothing to show the player but fallback choices: the first one is taken, silently
                if !self.choices.is_empty() && self.choices.iter().all(|c| c.invisible) {
                    let c = self.choices[0].clone();
                    self.note("fallback-choice-taken");
                    self.take(c);
                    continue;
                }
                if self.choices.iter().any(|c| !c.invisible) {
                    self.status = Status::Choices;
                } else if explicit_done {
                    self.status = Status::Done;
                } else if self.threads.last().unwrap().frames.len() > 1 {
                    self.status = Status::RanOut;
                } else {
                    self.status = Status::RanOut;
                }
                return Ok(());
            }
            // (after a tunnel return the flow is back at the call: that is where it "was" for whatever comes next)
            let prev = if matches!(ir.code[pc], Ins::TunnelReturn) { ir.scope_of[next].clone() } else { scope };
            let th = self.threads.last_mut().unwrap();
            th.pc = next;
            th.prev_scope = prev;
        }
    }

    /// Runs the next segment: everything up to the next point where the player must choose or the story stops.
    pub fn segment(&mut self) -> Segment {
        if let Status::Unsupported(_) = self.status {
            return Segment { lines: vec![], choices: vec![], choice_tags: vec![], status: self.status.clone() };
        }
        self.status = Status::Running;
        if let Err(s) = self.run() {
            self.status = s;
        }
        let lines = self.deliver();
        let choice_tags = self.choices.iter().filter(|c| !c.invisible).map(|c| c.tags.clone()).collect();
        Segment { lines, choices: self.visible_choices(), choice_tags, status: self.status.clone() }
    }

    /// What a host evaluation of an ink function must return: (value, printed text). The globals must have been
    /// set by the caller; nothing else of the story is consulted.
    pub fn host_call(&mut self, name: &str, args: Vec<V>) -> Result<(Option<V>, String), Status> {
        if self.ir.knot_kind.get(name) != Some(&KnotKind::Function) {
            return Err(Status::Unsupported(format!("{name} is not a function")));
        }
        self.stream.clear();
        let v = self.call_function(name, args, &(String::new(), String::new()))?;
        let lines = self.deliver();
        Ok((v, lines.iter().map(|l| l.0.clone()).collect::<Vec<_>>().join("\n")))
    }

    pub fn visible_choices(&self) -> Vec<String> {
        self.choices.iter().filter(|c| !c.invisible).map(|c| c.text.clone()).collect()
    }

    /// The player picks the i-th offered choice.
    pub fn choose(&mut self, i: usize) -> bool {
        let vis: Vec<GenChoice> = self.choices.iter().filter(|c| !c.invisible).cloned().collect();
        if i >= vis.len() {
            return false;
        }
        self.turn += 1;
        self.note("choice-taken");
        self.take(vis[i].clone());
        self.stream.clear();
        true
    }
}

//! Counting global allocator (feature `count-alloc`): live bytes / live blocks, nothing else.
#[cfg(feature = "count-alloc")]
mod imp {
    use std::alloc::{GlobalAlloc, Layout, System};
    use std::sync::atomic::{AtomicI64, Ordering};

    pub static LIVE_BYTES: AtomicI64 = AtomicI64::new(0);
    pub static LIVE_BLOCKS: AtomicI64 = AtomicI64::new(0);
    pub static TOTAL_ALLOCS: AtomicI64 = AtomicI64::new(0);

    pub struct Counting;

    unsafe impl GlobalAlloc for Counting {
        unsafe fn alloc(&self, l: Layout) -> *mut u8 {
            let p = unsafe { System.alloc(l) };
            if !p.is_null() {
                LIVE_BYTES.fetch_add(l.size() as i64, Ordering::Relaxed);
                LIVE_BLOCKS.fetch_add(1, Ordering::Relaxed);
                TOTAL_ALLOCS.fetch_add(1, Ordering::Relaxed);
            }
            p
        }
        unsafe fn dealloc(&self, p: *mut u8, l: Layout) {
            unsafe { System.dealloc(p, l) };
            LIVE_BYTES.fetch_sub(l.size() as i64, Ordering::Relaxed);
            LIVE_BLOCKS.fetch_sub(1, Ordering::Relaxed);
        }
        unsafe fn realloc(&self, p: *mut u8, l: Layout, new_size: usize) -> *mut u8 {
            let q = unsafe { System.realloc(p, l, new_size) };
            if !q.is_null() {
                LIVE_BYTES.fetch_add(new_size as i64 - l.size() as i64, Ordering::Relaxed);
                TOTAL_ALLOCS.fetch_add(1, Ordering::Relaxed);
            }
            q
        }
    }

    #[global_allocator]
    static A: Counting = Counting;

    pub fn live() -> (i64, i64) {
        (LIVE_BYTES.load(Ordering::Relaxed), LIVE_BLOCKS.load(Ordering::Relaxed))
    }
    pub fn total() -> i64 {
        TOTAL_ALLOCS.load(Ordering::Relaxed)
    }
    pub const ENABLED: bool = true;
}

#[cfg(not(feature = "count-alloc"))]
mod imp {
    pub fn live() -> (i64, i64) {
        (0, 0)
    }
    pub fn total() -> i64 {
        0
    }
    pub const ENABLED: bool = false;
}

pub use imp::*;

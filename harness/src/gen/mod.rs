pub mod ast;
pub mod build;
pub mod rename;
pub mod render;

pub mod ast;
pub mod build;
pub mod render;

//! Prefixes every program-defined identifier, so that several generated programs can live in one story
//! without sharing knots, labels or variables.
use super::ast::*;
use std::collections::BTreeSet;

struct Rn<'a> {
    names: BTreeSet<String>,
    prefix: &'a str,
}

impl<'a> Rn<'a> {
    fn one(&self, n: &str) -> String {
        if self.names.contains(n) { format!("{}{}", self.prefix, n) } else { n.to_string() }
    }
    fn path(&self, p: &str) -> String {
        p.split('.').map(|c| self.one(c)).collect::<Vec<_>>().join(".")
    }
    fn expr(&self, e: &Expr) -> Expr {
        match e {
            Expr::Var(v) => Expr::Var(self.path(v)),
            Expr::Bin(a, op, b) => Expr::Bin(Box::new(self.expr(a)), *op, Box::new(self.expr(b))),
            Expr::Not(a) => Expr::Not(Box::new(self.expr(a))),
            Expr::Neg(a) => Expr::Neg(Box::new(self.expr(a))),
            Expr::Call(f, args) => Expr::Call(self.one(f), args.iter().map(|a| self.expr(a)).collect()),
            Expr::ReadCount(p) => Expr::ReadCount(self.path(p)),
            Expr::TurnsSince(p) => Expr::TurnsSince(self.path(p)),
            Expr::ListLit(items) => Expr::ListLit(items.iter().map(|i| self.path(i)).collect()),
            Expr::Target(t) => Expr::Target(self.path(t)),
            other => other.clone(),
        }
    }
    fn inlines(&self, xs: &[Inline]) -> Vec<Inline> {
        xs.iter()
            .map(|x| match x {
                Inline::Expr(e) => Inline::Expr(self.expr(e)),
                Inline::Cond(c, a, b) => Inline::Cond(self.expr(c), self.inlines(a), b.as_ref().map(|b| self.inlines(b))),
                Inline::Seq(k, alts) => Inline::Seq(*k, alts.iter().map(|a| self.inlines(a)).collect()),
                other => other.clone(),
            })
            .collect()
    }
    fn target(&self, t: &Target) -> Target {
        match t {
            Target::Named(n) => Target::Named(self.path(n)),
            Target::Var(v) => Target::Var(self.one(v)),
            other => other.clone(),
        }
    }
    fn stmts(&self, ss: &[Stmt]) -> Vec<Stmt> {
        ss.iter().map(|s| self.stmt(s)).collect()
    }
    fn stmt(&self, s: &Stmt) -> Stmt {
        match s {
            Stmt::Line(xs, d) => Stmt::Line(self.inlines(xs), d.as_ref().map(|t| self.target(t))),
            Stmt::Choice(c) => Stmt::Choice(Choice {
                sticky: c.sticky,
                label: c.label.as_ref().map(|l| self.one(l)),
                conds: c.conds.iter().map(|e| self.expr(e)).collect(),
                start: self.inlines(&c.start),
                choice_only: c.choice_only.as_ref().map(|x| self.inlines(x)),
                end: self.inlines(&c.end),
                divert: c.divert.as_ref().map(|t| self.target(t)),
                body: self.stmts(&c.body),
            }),
            Stmt::Gather(l, xs, d) => Stmt::Gather(l.as_ref().map(|l| self.one(l)), self.inlines(xs), d.as_ref().map(|t| self.target(t))),
            Stmt::Divert(t) => Stmt::Divert(self.target(t)),
            Stmt::Tunnel(t, args) => Stmt::Tunnel(self.path(t), args.iter().map(|a| self.expr(a)).collect()),
            Stmt::TunnelReturn => Stmt::TunnelReturn,
            Stmt::Thread(t) => Stmt::Thread(self.path(t)),
            Stmt::Assign { temp_decl, name, op, expr } => Stmt::Assign { temp_decl: *temp_decl, name: self.one(name), op: *op, expr: self.expr(expr) },
            Stmt::Return(e) => Stmt::Return(e.as_ref().map(|e| self.expr(e))),
            Stmt::Eval(e) => Stmt::Eval(self.expr(e)),
            Stmt::If(bs, els) => Stmt::If(bs.iter().map(|(c, b)| (self.expr(c), self.stmts(b))).collect(), els.as_ref().map(|b| self.stmts(b))),
            Stmt::SeqBlock(k, alts) => Stmt::SeqBlock(*k, alts.iter().map(|a| self.stmts(a)).collect()),
        }
    }
}

fn collect_stmts(ss: &[Stmt], names: &mut BTreeSet<String>) {
    for s in ss {
        match s {
            Stmt::Choice(c) => {
                if let Some(l) = &c.label {
                    names.insert(l.clone());
                }
                collect_stmts(&c.body, names);
            }
            Stmt::Gather(Some(l), _, _) => {
                names.insert(l.clone());
            }
            Stmt::Assign { temp_decl: true, name, .. } => {
                names.insert(name.clone());
            }
            Stmt::If(bs, els) => {
                for (_, b) in bs {
                    collect_stmts(b, names);
                }
                if let Some(b) = els {
                    collect_stmts(b, names);
                }
            }
            Stmt::SeqBlock(_, alts) => {
                for a in alts {
                    collect_stmts(a, names);
                }
            }
            _ => {}
        }
    }
}

pub fn prefix_program(p: &Program, prefix: &str) -> Program {
    let mut names = BTreeSet::new();
    for (g, _) in &p.globals {
        names.insert(g.clone());
    }
    for l in &p.lists {
        names.insert(l.name.clone());
        for it in &l.items {
            names.insert(it.0.clone());
        }
    }
    for x in &p.externals {
        names.insert(x.name.clone());
        for pa in &x.params {
            names.insert(pa.clone());
        }
    }
    collect_stmts(&p.root, &mut names);
    for k in &p.knots {
        names.insert(k.name.clone());
        for pa in &k.params {
            names.insert(pa.clone());
        }
        collect_stmts(&k.body, &mut names);
        for s in &k.stitches {
            names.insert(s.name.clone());
            collect_stmts(&s.body, &mut names);
        }
    }
    let r = Rn { names, prefix };
    Program {
        globals: p.globals.iter().map(|(g, e)| (r.one(g), r.expr(e))).collect(),
        lists: p
            .lists
            .iter()
            .map(|l| ListDecl { name: r.one(&l.name), items: l.items.iter().map(|(n, v, on)| (r.one(n), *v, *on)).collect() })
            .collect(),
        externals: p
            .externals
            .iter()
            .map(|x| External { name: r.one(&x.name), params: x.params.iter().map(|p| r.one(p)).collect(), fallback: x.fallback.as_ref().map(|b| r.stmts(b)) })
            .collect(),
        root: r.stmts(&p.root),
        knots: p
            .knots
            .iter()
            .map(|k| Knot {
                name: r.one(&k.name),
                kind: k.kind,
                params: k.params.iter().map(|p| r.one(p)).collect(),
                body: r.stmts(&k.body),
                stitches: k.stitches.iter().map(|s| Stitch { name: r.one(&s.name), body: r.stmts(&s.body) }).collect(),
            })
            .collect(),
    }
}

/// Several programs side by side: the root just stops; each program is entered by a host jump to `<prefix>k0`.
pub fn merge(parts: &[Program]) -> Program {
    let mut out = Program::default();
    out.root = vec![Stmt::Divert(Target::Done)];
    for p in parts {
        out.globals.extend(p.globals.clone());
        out.lists.extend(p.lists.clone());
        out.externals.extend(p.externals.clone());
        out.knots.extend(p.knots.clone());
    }
    out
}

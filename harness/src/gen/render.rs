//! Renders a generated program to Ink source in a canonical layout.
use super::ast::*;

pub fn expr(e: &Expr) -> String {
    match e {
        Expr::Int(i) => {
            if *i < 0 {
                format!("({i})")
            } else {
                i.to_string()
            }
        }
        Expr::Bool(b) => b.to_string(),
        Expr::Str(s) => format!("\"{s}\""),
        Expr::Float(f) => {
            // plain decimal notation (no exponent), at least one digit after the point
            let mut s = format!("{:.10}", f);
            while s.ends_with('0') && !s.ends_with(".0") {
                s.pop();
            }
            if *f < 0.0 { format!("({s})") } else { s }
        }
        Expr::Var(v) => v.clone(),
        Expr::Bin(a, op, b) => format!("{} {} {}", sub(a, Some(*op)), op.sym(), sub(b, None)),
        Expr::Not(a) => format!("not {}", sub(a, None)),
        Expr::Neg(a) => format!("-{}", sub(a, None)),
        Expr::Call(f, args) => format!("{}({})", f, args.iter().map(expr).collect::<Vec<_>>().join(", ")),
        Expr::ReadCount(p) => p.clone(),
        Expr::TurnsSince(p) => format!("TURNS_SINCE(-> {p})"),
        Expr::ChoiceCount => "CHOICE_COUNT()".to_string(),
        Expr::Turns => "TURNS()".to_string(),
        Expr::ListLit(items) => format!("({})", items.join(", ")),
        Expr::Target(t) => format!("-> {t}"),
    }
}

/// operand rendering: anything compound is parenthesised, except a left operand that is a chain of the same operator
fn sub(e: &Expr, same_left: Option<BinOp>) -> String {
    match e {
        Expr::Bin(_, op, _) => {
            if same_left == Some(*op) && matches!(op, BinOp::Add | BinOp::Mul | BinOp::And | BinOp::Or) {
                expr(e)
            } else {
                format!("({})", expr(e))
            }
        }
        Expr::Not(_) | Expr::Neg(_) => format!("({})", expr(e)),
        _ => expr(e),
    }
}

pub fn target(t: &Target) -> String {
    match t {
        Target::Named(n) => n.clone(),
        Target::End => "END".into(),
        Target::Done => "DONE".into(),
        Target::Var(v) => v.clone(),
    }
}

pub fn inlines(xs: &[Inline]) -> String {
    let mut s = String::new();
    for x in xs {
        match x {
            Inline::Text(t) => s.push_str(t),
            Inline::Expr(e) => s.push_str(&format!("{{{}}}", expr(e))),
            Inline::Cond(c, a, b) => {
                s.push_str(&format!("{{{}: {}", expr(c), inlines(a)));
                if let Some(b) = b {
                    s.push_str(&format!("|{}", inlines(b)));
                }
                s.push('}');
            }
            Inline::Seq(kind, alts) => {
                let mark = match kind {
                    SeqKind::Stopping => "",
                    SeqKind::Cycle => "&",
                    SeqKind::Once => "!",
                    SeqKind::Shuffle => "~",
                };
                s.push('{');
                s.push_str(mark);
                s.push_str(&alts.iter().map(|a| inlines(a)).collect::<Vec<_>>().join("|"));
                s.push('}');
            }
            Inline::Glue => s.push_str("<>"),
            Inline::Tag(t) => s.push_str(&format!(" # {t}")),
        }
    }
    s
}

fn line_with_divert(xs: &[Inline], d: &Option<Target>) -> String {
    let mut s = inlines(xs);
    if let Some(t) = d {
        if !s.is_empty() && !s.ends_with(' ') {
            s.push(' ');
        }
        s.push_str(&format!("-> {}", target(t)));
    }
    s
}

struct R {
    out: String,
}

impl R {
    fn line(&mut self, indent: usize, text: &str) {
        for _ in 0..indent {
            self.out.push_str("    ");
        }
        self.out.push_str(text);
        self.out.push('\n');
    }

    fn block(&mut self, stmts: &[Stmt], depth: usize, indent: usize) {
        for st in stmts {
            self.stmt(st, depth, indent);
        }
    }

    fn stmt(&mut self, st: &Stmt, depth: usize, indent: usize) {
        match st {
            Stmt::Line(xs, d) => {
                let l = line_with_divert(xs, d);
                self.line(indent, &l);
            }
            Stmt::Choice(c) => {
                let mark = if c.sticky { "+" } else { "*" };
                let mut s = vec![mark; depth + 1].join(" ");
                s.push(' ');
                if let Some(l) = &c.label {
                    s.push_str(&format!("({l}) "));
                }
                for cond in c.conds.iter() {
                    s.push_str(&format!("{{{}}} ", expr(cond)));
                }
                if c.is_fallback() && c.divert.is_none() {
                    s.push_str("->");
                }
                s.push_str(&inlines(&c.start));
                if let Some(co) = &c.choice_only {
                    s.push_str(&format!("[{}]", inlines(co)));
                }
                s.push_str(&inlines(&c.end));
                if let Some(t) = &c.divert {
                    if !s.ends_with(' ') {
                        s.push(' ');
                    }
                    s.push_str(&format!("-> {}", target(t)));
                }
                self.line(indent, s.trim_end());
                self.block(&c.body, depth + 1, indent + 1);
            }
            Stmt::Gather(label, xs, d) => {
                let mut s = vec!["-"; depth + 1].join(" ");
                s.push(' ');
                if let Some(l) = label {
                    s.push_str(&format!("({l}) "));
                }
                s.push_str(&line_with_divert(xs, d));
                self.line(indent, s.trim_end());
            }
            Stmt::Divert(t) => self.line(indent, &format!("-> {}", target(t))),
            Stmt::Tunnel(t, args) => {
                if args.is_empty() {
                    self.line(indent, &format!("-> {t} ->"));
                } else {
                    let a: Vec<String> = args.iter().map(expr).collect();
                    self.line(indent, &format!("-> {t}({}) ->", a.join(", ")));
                }
            }
            Stmt::TunnelReturn => self.line(indent, "->->"),
            Stmt::Thread(t) => self.line(indent, &format!("<- {t}")),
            Stmt::Assign { temp_decl, name, op, expr: e } => {
                let o = match op {
                    AssignOp::Set => "=",
                    AssignOp::Add => "+=",
                    AssignOp::Sub => "-=",
                };
                let t = if *temp_decl { "temp " } else { "" };
                self.line(indent, &format!("~ {t}{name} {o} {}", expr(e)));
            }
            Stmt::Return(e) => match e {
                Some(e) => self.line(indent, &format!("~ return {}", expr(e))),
                None => self.line(indent, "~ return"),
            },
            Stmt::Eval(e) => self.line(indent, &format!("~ {}", expr(e))),
            Stmt::If(branches, els) => {
                self.line(indent, "{");
                for (c, b) in branches {
                    self.line(indent + 1, &format!("- {}:", expr(c)));
                    self.block(b, depth, indent + 2);
                }
                if let Some(b) = els {
                    self.line(indent + 1, "- else:");
                    self.block(b, depth, indent + 2);
                }
                self.line(indent, "}");
            }
            Stmt::SeqBlock(kind, alts) => {
                let k = match kind {
                    SeqKind::Stopping => "stopping",
                    SeqKind::Cycle => "cycle",
                    SeqKind::Once => "once",
                    SeqKind::Shuffle => "shuffle",
                };
                self.line(indent, &format!("{{{k}:"));
                for a in alts {
                    self.line(indent + 1, "-");
                    self.block(a, depth, indent + 2);
                }
                self.line(indent, "}");
            }
        }
    }
}

pub fn program(p: &Program) -> String {
    let mut r = R { out: String::new() };
    for l in p.lists.iter() {
        let items: Vec<String> = l
            .items
            .iter()
            .map(|(n, v, on)| {
                let base = format!("{n} = {v}");
                if *on { format!("({base})") } else { base }
            })
            .collect();
        r.line(0, &format!("LIST {} = {}", l.name, items.join(", ")));
    }
    for (n, e) in p.globals.iter() {
        r.line(0, &format!("VAR {n} = {}", expr(e)));
    }
    for x in p.externals.iter() {
        r.line(0, &format!("EXTERNAL {}({})", x.name, x.params.join(", ")));
    }
    r.block(&p.root, 0, 0);
    for k in p.knots.iter() {
        let params = if k.params.is_empty() && k.kind != KnotKind::Function {
            String::new()
        } else {
            format!("({})", k.params.join(", "))
        };
        let f = if k.kind == KnotKind::Function { "function " } else { "" };
        r.line(0, &format!("=== {f}{}{params} ===", k.name));
        r.block(&k.body, 0, 0);
        for s in k.stitches.iter() {
            r.line(0, &format!("= {}", s.name));
            r.block(&s.body, 0, 0);
        }
    }
    for x in p.externals.iter() {
        if let Some(b) = &x.fallback {
            r.line(0, &format!("=== function {}({}) ===", x.name, x.params.join(", ")));
            r.block(b, 0, 0);
        }
    }
    r.out
}

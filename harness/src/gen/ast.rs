//! Typed AST of generated Ink programs. Rendered to source by `render`, executed directly by `refint`.

#[derive(Clone, Copy, Debug, PartialEq, Eq, Hash)]
pub enum Ty {
    Int,
    Bool,
    Str,
    Float,
    List,
}

#[derive(Clone, Copy, Debug, PartialEq, Eq, Hash)]
pub enum BinOp {
    Add,
    Sub,
    Mul,
    Div,
    Mod,
    Eq,
    Ne,
    Lt,
    Le,
    Gt,
    Ge,
    And,
    Or,
    Has,
    Hasnt,
    Intersect,
}

impl BinOp {
    pub fn sym(&self) -> &'static str {
        match self {
            BinOp::Add => "+",
            BinOp::Sub => "-",
            BinOp::Mul => "*",
            BinOp::Div => "/",
            BinOp::Mod => "%",
            BinOp::Eq => "==",
            BinOp::Ne => "!=",
            BinOp::Lt => "<",
            BinOp::Le => "<=",
            BinOp::Gt => ">",
            BinOp::Ge => ">=",
            BinOp::And => "&&",
            BinOp::Or => "||",
            BinOp::Has => "?",
            BinOp::Hasnt => "!?",
            BinOp::Intersect => "^",
        }
    }
}

#[derive(Clone, Debug, PartialEq)]
pub enum Expr {
    Int(i32),
    Bool(bool),
    Str(String),
    Float(f32),
    Var(String),
    Bin(Box<Expr>, BinOp, Box<Expr>),
    Not(Box<Expr>),
    Neg(Box<Expr>),
    /// ink function, EXTERNAL or builtin (MIN, MAX, POW, FLOOR, CEILING, INT, FLOAT, RANDOM, LIST_*, ...)
    Call(String, Vec<Expr>),
    /// read count of a knot / knot.stitch / label, written as a dotted path
    ReadCount(String),
    TurnsSince(String),
    ChoiceCount,
    Turns,
    /// list literal: items by (possibly qualified) name; empty = ()
    ListLit(Vec<String>),
    /// divert target value `-> name`
    Target(String),
}

#[derive(Clone, Copy, Debug, PartialEq, Eq)]
pub enum SeqKind {
    Stopping,
    Cycle,
    Once,
    Shuffle,
}

#[derive(Clone, Debug, PartialEq)]
pub enum Inline {
    Text(String),
    Expr(Expr),
    /// {cond: a | b}
    Cond(Expr, Vec<Inline>, Option<Vec<Inline>>),
    /// {a|b|c}, {&a|b}, {!a|b}, {~a|b}
    Seq(SeqKind, Vec<Vec<Inline>>),
    Glue,
    Tag(String),
}

#[derive(Clone, Debug, PartialEq)]
pub enum Target {
    Named(String),
    End,
    Done,
    /// divert through a variable holding a divert target
    Var(String),
}

#[derive(Clone, Copy, Debug, PartialEq, Eq)]
pub enum AssignOp {
    Set,
    Add,
    Sub,
}

#[derive(Clone, Debug, PartialEq)]
pub struct Choice {
    pub sticky: bool,
    pub label: Option<String>,
    pub conds: Vec<Expr>,
    pub start: Vec<Inline>,
    /// Some => brackets present
    pub choice_only: Option<Vec<Inline>>,
    pub end: Vec<Inline>,
    /// inline divert on the choice line itself (`* text -> target`)
    pub divert: Option<Target>,
    pub body: Vec<Stmt>,
}

impl Choice {
    pub fn is_fallback(&self) -> bool {
        self.start.is_empty() && self.choice_only.is_none() && self.end.is_empty()
    }
}

#[derive(Clone, Debug, PartialEq)]
pub enum Stmt {
    /// a content line, optionally ending in an inline divert
    Line(Vec<Inline>, Option<Target>),
    Choice(Choice),
    /// gather at the current weave depth; optional label and content on the same line
    Gather(Option<String>, Vec<Inline>, Option<Target>),
    Divert(Target),
    /// -> t -> (args)
    Tunnel(String, Vec<Expr>),
    TunnelReturn,
    Thread(String),
    /// ~ temp x = e / ~ x = e / ~ x += e
    Assign {
        temp_decl: bool,
        name: String,
        op: AssignOp,
        expr: Expr,
    },
    Return(Option<Expr>),
    /// ~ f(x)
    Eval(Expr),
    /// { - cond: ... - cond2: ... - else: ... }
    If(Vec<(Expr, Vec<Stmt>)>, Option<Vec<Stmt>>),
    /// { stopping: - a - b }
    SeqBlock(SeqKind, Vec<Vec<Stmt>>),
}

#[derive(Clone, Copy, Debug, PartialEq, Eq)]
pub enum KnotKind {
    Flow,
    Tunnel,
    Function,
    Thread,
}

#[derive(Clone, Debug, PartialEq)]
pub struct Stitch {
    pub name: String,
    pub body: Vec<Stmt>,
}

#[derive(Clone, Debug, PartialEq)]
pub struct Knot {
    pub name: String,
    pub kind: KnotKind,
    pub params: Vec<String>,
    pub body: Vec<Stmt>,
    pub stitches: Vec<Stitch>,
}

#[derive(Clone, Debug, PartialEq)]
pub struct ListDecl {
    pub name: String,
    /// (item, value, initially set)
    pub items: Vec<(String, i32, bool)>,
}

#[derive(Clone, Debug, PartialEq)]
pub struct External {
    pub name: String,
    pub params: Vec<String>,
    /// ink fallback body present
    pub fallback: Option<Vec<Stmt>>,
}

#[derive(Clone, Debug, PartialEq, Default)]
pub struct Program {
    pub globals: Vec<(String, Expr)>,
    pub lists: Vec<ListDecl>,
    pub externals: Vec<External>,
    pub root: Vec<Stmt>,
    pub knots: Vec<Knot>,
}

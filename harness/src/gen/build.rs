//! Seeded random construction of well-formed, terminating Ink programs (as AST).
use super::ast::*;
use crate::rng::Rng;

#[derive(Clone, Debug)]
pub struct GenCfg {
    pub flow_knots: (usize, usize),
    pub tunnels: bool,
    pub functions: bool,
    pub threads: bool,
    pub stitches: bool,
    pub labels: bool,
    pub tags: bool,
    pub glue: bool,
    pub sequences: bool,
    pub shuffles: bool,
    pub block_cond: bool,
    pub inline_cond: bool,
    pub fallback: bool,
    pub sticky: bool,
    pub loops: bool,
    pub read_counts: bool,
    pub turns_since: bool,
    pub choice_count: bool,
    pub strings: bool,
    pub random: bool,
    pub lists: bool,
    pub externals: bool,
    pub inline_diverts: bool,
    pub nested_depth: usize,
    /// approximate number of content statements per weave section
    pub run_len: (usize, usize),
    /// tunnel/function params
    pub params: bool,
    /// text of function calls inside lines ({f(x)})
    pub fn_text: bool,
    /// multi-line function bodies (saves can land inside functions)
    pub multiline_functions: bool,
    /// effects placed right after line ends followed by glue / text
    pub lookahead_effects: bool,
    /// items of different lists may share values (order among ties is then observable)
    pub list_ties: bool,
    /// add knot `kprobe`: one line, then falls off the end (used to observe what is left on the call stack)
    pub probe_knot: bool,
    /// functions have no global side effects (no assignments, no RANDOM)
    pub pure_functions: bool,
    /// more and longer threads
    pub thread_boost: bool,
    /// declare `VAR gd = -> kz` (a divert-target value the host can read)
    pub divert_global: bool,
    /// words with quotes, apostrophes, non-ASCII, control characters (for output-format checks)
    pub hostile_words: bool,
    /// different lists share item names (resolution of a bare name must still be repeatable)
    pub shared_item_names: bool,
    /// many globals (order of maps in saves)
    pub many_globals: bool,
    /// choice text is words and {variable} only (nothing whose evaluation has effects)
    pub plain_choice_text: bool,
    /// never write glue and tags on the same line (what a tag does to pending glue is not pinned down by the language)
    pub no_glue_with_tags: bool,
    /// functions call later functions (as a statement or at the start of a line), both printing text
    pub nested_functions: bool,
    /// tags inside choice lines (on the text before, inside and after the brackets)
    pub choice_tags: bool,
    /// more source layouts: brackets without spaces, a divert at the end of a content line, stitches addressed
    /// by their bare name from inside their knot, two conditions on a choice
    pub layout_variants: bool,
    /// sometimes leave out the choice that keeps a re-entrant section alive: the story then legitimately runs out
    /// of content on some paths (an error the engine must report)
    pub allow_runout: bool,
    /// many calls of (multi-line) functions in the middle of expressions, after an operand: the story can then
    /// pause inside the function while the caller's operands wait on the evaluation stack
    pub call_mid_expression_boost: bool,
    /// float globals that drift off their initial value by tiny and by ordinary amounts
    pub floats: bool,
    /// pairs "~ g = g" / "~ g = g + 1": a write that changes nothing followed by one that does
    pub identity_then_change: bool,
    /// threads that contribute nothing but a fallback choice
    pub thread_fallbacks: bool,
}

impl GenCfg {
    pub fn core() -> GenCfg {
        GenCfg {
            flow_knots: (2, 5),
            tunnels: true,
            functions: true,
            threads: true,
            stitches: true,
            labels: true,
            tags: true,
            glue: true,
            sequences: true,
            shuffles: false,
            block_cond: true,
            inline_cond: true,
            fallback: true,
            sticky: true,
            loops: true,
            read_counts: true,
            turns_since: true,
            choice_count: false,
            strings: true,
            random: false,
            lists: false,
            externals: false,
            inline_diverts: true,
            nested_depth: 2,
            run_len: (1, 4),
            params: true,
            fn_text: true,
            multiline_functions: true,
            lookahead_effects: true,
            list_ties: false,
            probe_knot: false,
            pure_functions: false,
            thread_boost: false,
            divert_global: false,
            hostile_words: false,
            shared_item_names: false,
            many_globals: false,
            plain_choice_text: false,
            no_glue_with_tags: false,
            nested_functions: false,
            choice_tags: false,
            layout_variants: false,
            allow_runout: false,
            call_mid_expression_boost: false,
            floats: false,
            identity_then_change: false,
            thread_fallbacks: false,
        }
    }
    /// everything, including the nondeterministic-looking features (for lockstep oracles)
    pub fn rich() -> GenCfg {
        let mut c = GenCfg::core();
        c.shuffles = true;
        c.random = true;
        c.lists = true;
        c
    }
}

#[derive(Clone, Debug)]
struct KnotPlan {
    name: String,
    kind: KnotKind,
    params: Vec<(String, Ty)>,
    ret: Ty,
    stitches: Vec<String>,
    loops: bool,
}

#[derive(Clone, Debug, Default)]
pub struct Meta {
    /// names of everything whose visit count may be observed
    pub labels: Vec<String>,
    pub functions: Vec<(String, Vec<Ty>, Ty)>,
    pub int_globals: Vec<String>,
    pub bool_globals: Vec<String>,
    pub str_globals: Vec<String>,
    pub list_globals: Vec<String>,
    pub flow_knots: Vec<String>,
    pub thread_knots: Vec<String>,
    pub tunnel_knots: Vec<String>,
}

pub struct Builder<'a> {
    pub cfg: &'a GenCfg,
    rng: Rng,
    uid: usize,
    plans: Vec<KnotPlan>,
    lists: Vec<ListDecl>,
    pub meta: Meta,
    // per-body scope
    scope: Vec<(String, Ty)>,
    cur_knot: usize,
    cur_scope: String,
    cur_labels: Vec<String>,
    in_function: bool,
    in_thread: bool,
    /// labels of the depth-0 gathers written so far in the current knot / stitch
    section_gathers: Vec<String>,
    /// (knot, its bounce knot): the section being written may offer a way out to the bounce knot, which prints a line
    /// and comes straight back (the knot is then re-entered from outside, in the same turn, right after a line end)
    bounce: Option<(String, String)>,
    extra_knots: Vec<Knot>,
}

const WORDS: &[&str] = &[
    "amber", "brisk", "cedar", "dawn", "ember", "frost", "grove", "haze", "iris", "jade", "kelp", "lark", "moss",
    "north", "opal", "pine", "quill", "reed", "slate", "tide", "umber", "vale", "wren", "yarrow", "zest",
];

const HOSTILE_WORDS: &[&str] = &[
    "\"quoted\"", "it's", "caf\u{e9}", "\u{65e5}\u{672c}", "\u{1f642}", "ctl\u{1}x", "del\u{7f}x", "ls\u{2028}x", "semi;colon", "a&b", "100%", "e\u{301}", "\u{10ffd}",
    // ends of the UTF-8 length classes and lead-byte ranges, next to ASCII and next to each other
    "\u{7ff}x", "\u{7c0}\u{7ff}", "\u{800}y", "\u{d7ff}\u{e000}", "\u{ff0c}z", "\u{fffd}\u{ff0c}w", "\u{f8ff}", "\u{10000}v", "\u{10ffff}\u{80}",
];

pub fn generate(cfg: &GenCfg, rng: &mut Rng) -> (Program, Meta) {
    let mut b = Builder {
        cfg,
        rng: rng.fork(),
        uid: 0,
        plans: Vec::new(),
        lists: Vec::new(),
        meta: Meta::default(),
        scope: Vec::new(),
        cur_knot: 0,
        cur_scope: String::new(),
        cur_labels: Vec::new(),
        in_function: false,
        in_thread: false,
        section_gathers: Vec::new(),
        bounce: None,
        extra_knots: Vec::new(),
    };
    let p = b.program();
    (p, b.meta)
}

impl<'a> Builder<'a> {
    fn word(&mut self) -> String {
        if self.cfg.hostile_words && self.rng.chance(1, 3) {
            return self.rng.pick(HOSTILE_WORDS).to_string();
        }
        self.rng.pick(WORDS).to_string()
    }

    fn marker(&mut self) -> String {
        self.uid += 1;
        format!("m{}", self.uid)
    }

    fn text(&mut self) -> String {
        let mut s = self.marker();
        for _ in 0..self.rng.below(3) {
            s.push(' ');
            s.push_str(&self.word());
        }
        if self.rng.chance(1, 3) {
            s.push(*self.rng.pick(&['.', '!', '?', ',']));
        }
        s
    }

    fn program(&mut self) -> Program {
        let cfg = self.cfg;
        let mut p = Program::default();
        // globals
        let n_int = if cfg.many_globals { 14 + self.rng.below(8) } else { 2 + self.rng.below(3) };
        for i in 0..n_int {
            let name = format!("gi{i}");
            p.globals.push((name.clone(), Expr::Int(self.rng.below(5) as i32)));
            self.meta.int_globals.push(name);
        }
        for i in 0..1 + self.rng.below(2) {
            let name = format!("gb{i}");
            p.globals.push((name.clone(), Expr::Bool(self.rng.chance(1, 2))));
            self.meta.bool_globals.push(name);
        }
        if cfg.strings {
            for i in 0..1 + self.rng.below(2) {
                let name = format!("gs{i}");
                let w = self.word();
                p.globals.push((name.clone(), Expr::Str(w)));
                self.meta.str_globals.push(name);
            }
        }
        if cfg.divert_global {
            p.globals.push(("gd".into(), Expr::Target("kz".into())));
        }
        if cfg.floats {
            p.globals.push(("gf0".into(), Expr::Float(1.0)));
            p.globals.push(("gf1".into(), Expr::Float(0.0)));
        }
        if cfg.lists {
            let nl = 1 + self.rng.below(2);
            for li in 0..nl {
                let n_items = 2 + self.rng.below(3);
                let mut items = Vec::new();
                // values are unique across lists (ties between lists are C03's subject: see `list_ties`)
                let mut v = if cfg.list_ties { 0 } else { li as i32 * 20 };
                for k in 0..n_items {
                    v += 1 + self.rng.below(2) as i32;
                    let iname = if cfg.shared_item_names && k < 2 {
                        format!("sh{}", (b'a' + k as u8) as char)
                    } else {
                        format!("it{li}{}", (b'a' + k as u8) as char)
                    };
                    items.push((iname, v, self.rng.chance(1, 3)));
                }
                let name = format!("lst{li}");
                self.lists.push(ListDecl { name: name.clone(), items });
                self.meta.list_globals.push(name);
            }
            p.lists = self.lists.clone();
        }
        // plan knots
        let nflow = cfg.flow_knots.0 + self.rng.below(cfg.flow_knots.1 - cfg.flow_knots.0 + 1);
        for i in 0..nflow {
            let mut stitches = Vec::new();
            if cfg.stitches && self.rng.chance(1, 3) {
                for s in 0..1 + self.rng.below(2) {
                    stitches.push(format!("st{i}{}", (b'a' + s as u8) as char));
                }
            }
            let loops = cfg.loops && self.rng.chance(1, 3);
            self.plans.push(KnotPlan {
                name: format!("k{i}"),
                kind: KnotKind::Flow,
                params: vec![],
                ret: Ty::Int,
                stitches,
                loops,
            });
            self.meta.flow_knots.push(format!("k{i}"));
        }
        // sink knot: a safe place to go from anywhere
        self.plans.push(KnotPlan {
            name: "kz".into(),
            kind: KnotKind::Flow,
            params: vec![],
            ret: Ty::Int,
            stitches: vec![],
            loops: false,
        });
        if cfg.tunnels {
            for i in 0..self.rng.below(3) {
                let params = if cfg.params && self.rng.chance(1, 2) {
                    vec![(format!("tp{i}"), Ty::Int)]
                } else {
                    vec![]
                };
                self.plans.push(KnotPlan {
                    name: format!("tun{i}"),
                    kind: KnotKind::Tunnel,
                    params,
                    ret: Ty::Int,
                    stitches: vec![],
                    loops: false,
                });
                self.meta.tunnel_knots.push(format!("tun{i}"));
            }
        }
        if cfg.threads {
            let nthr = if cfg.thread_boost { 1 + self.rng.below(2) } else { self.rng.below(3) };
            for i in 0..nthr {
                self.plans.push(KnotPlan {
                    name: format!("thr{i}"),
                    kind: KnotKind::Thread,
                    params: vec![],
                    ret: Ty::Int,
                    stitches: vec![],
                    loops: false,
                });
                self.meta.thread_knots.push(format!("thr{i}"));
            }
        }
        if cfg.functions {
            for i in 0..1 + self.rng.below(3) {
                let np = if cfg.params { self.rng.below(3) } else { 0 };
                let params: Vec<(String, Ty)> = (0..np)
                    .map(|k| {
                        (
                            format!("fp{i}{}", (b'a' + k as u8) as char),
                            if k == 1 && cfg.strings { Ty::Str } else { Ty::Int },
                        )
                    })
                    .collect();
                let ret = *self.rng.pick(&[Ty::Int, Ty::Int, Ty::Bool]);
                self.meta
                    .functions
                    .push((format!("fn{i}"), params.iter().map(|p| p.1).collect(), ret));
                self.plans.push(KnotPlan {
                    name: format!("fn{i}"),
                    kind: KnotKind::Function,
                    params,
                    ret,
                    stitches: vec![],
                    loops: false,
                });
            }
        }
        if cfg.externals {
            for i in 0..1 + self.rng.below(2) {
                let np = self.rng.below(3);
                let params: Vec<String> = (0..np).map(|k| format!("xp{i}{k}")).collect();
                let fallback = if self.rng.chance(1, 2) {
                    Some(vec![Stmt::Return(Some(Expr::Int(7 + i as i32)))])
                } else {
                    None
                };
                p.externals.push(External {
                    name: format!("ext{i}"),
                    params,
                    fallback,
                });
            }
        }
        if cfg.probe_knot {
            self.plans.push(KnotPlan {
                name: "kprobe".into(),
                kind: KnotKind::Flow,
                params: vec![],
                ret: Ty::Int,
                stitches: vec![],
                loops: false,
            });
        }
        // root
        self.scope.clear();
        p.root = vec![Stmt::Divert(Target::Named("k0".into()))];
        if self.rng.chance(1, 3) {
            let t = self.text();
            p.root.insert(0, Stmt::Line(vec![Inline::Text(t)], None));
        }
        // bodies
        for i in 0..self.plans.len() {
            let plan = self.plans[i].clone();
            self.cur_knot = i;
            self.cur_labels.clear();
            self.section_gathers.clear();
            self.scope = plan.params.clone();
            self.in_function = plan.kind == KnotKind::Function;
            self.in_thread = plan.kind == KnotKind::Thread;
            let (body, stitches) = match plan.kind {
                KnotKind::Flow if plan.name == "kprobe" => {
                    (vec![Stmt::Line(vec![Inline::Text("probe line".into())], None)], vec![])
                }
                KnotKind::Flow if plan.name == "kz" => {
                    let t = self.text();
                    (vec![Stmt::Line(vec![Inline::Text(t)], None), Stmt::Divert(Target::End)], vec![])
                }
                KnotKind::Flow => self.flow_knot(i, &plan, &p.externals),
                KnotKind::Tunnel => (self.tunnel_body(&p.externals), vec![]),
                KnotKind::Thread => (self.thread_body(&p.externals), vec![]),
                KnotKind::Function => (self.function_body(&plan), vec![]),
            };
            p.knots.push(Knot {
                name: plan.name.clone(),
                kind: plan.kind,
                params: plan.params.iter().map(|p| p.0.clone()).collect(),
                body,
                stitches,
            });
            if !(cfg.pure_functions && plan.kind == KnotKind::Function) {
                self.meta.labels.push(plan.name.clone());
            }
        }
        p.knots.append(&mut self.extra_knots);
        p
    }

    // ---------------------------------------------------------------- expressions

    fn int_atom(&mut self) -> Expr {
        let mut opts: Vec<Expr> = vec![Expr::Int(self.rng.below(7) as i32), Expr::Int(self.rng.below(4) as i32)];
        let g = self.rng.pick(&self.meta.int_globals.clone()).clone();
        opts.push(Expr::Var(g.clone()));
        opts.push(Expr::Var(g));
        for (n, t) in self.scope.iter() {
            if *t == Ty::Int {
                opts.push(Expr::Var(n.clone()));
            }
        }
        if self.cfg.read_counts && !self.meta.labels.is_empty() && self.rng.chance(1, 3) {
            let l = self.rng.pick(&self.meta.labels.clone()).clone();
            opts.push(Expr::ReadCount(l));
        }
        if self.cfg.read_counts && !self.cur_labels.is_empty() && self.rng.chance(1, 3) {
            let l = self.rng.pick(&self.cur_labels.clone()).clone();
            opts.push(Expr::ReadCount(l));
        }
        if self.cfg.choice_count && self.rng.chance(1, 6) {
            opts.push(Expr::ChoiceCount);
        }
        if self.cfg.layout_variants && self.cfg.turns_since && !self.in_function && !self.meta.flow_knots.is_empty() && self.rng.chance(1, 8) {
            // also inside conditions (of choices, branches, inline conditionals)
            opts.push(Expr::TurnsSince(self.rng.pick(&self.meta.flow_knots.clone()).clone()));
        }
        let i = self.rng.below(opts.len());
        opts.swap_remove(i)
    }

    pub fn int_expr(&mut self, depth: usize) -> Expr {
        if depth == 0 || self.rng.chance(2, 5) {
            return self.int_atom();
        }
        match self.rng.below(8) {
            0 | 1 => Expr::Bin(Box::new(self.int_expr(depth - 1)), BinOp::Add, Box::new(self.int_expr(depth - 1))),
            2 => Expr::Bin(Box::new(self.int_expr(depth - 1)), BinOp::Sub, Box::new(self.int_expr(depth - 1))),
            3 => Expr::Bin(
                Box::new(self.int_expr(depth - 1)),
                BinOp::Mul,
                Box::new(Expr::Int(1 + self.rng.below(3) as i32)),
            ),
            4 => Expr::Bin(
                Box::new(self.int_expr(depth - 1)),
                BinOp::Mod,
                Box::new(Expr::Int(2 + self.rng.below(3) as i32)),
            ),
            5 => Expr::Bin(
                Box::new(self.int_expr(depth - 1)),
                BinOp::Div,
                Box::new(Expr::Int(1 + self.rng.below(3) as i32)),
            ),
            6 if self.cfg.functions && !self.in_function => self.fn_call(Ty::Int, depth - 1).unwrap_or_else(|| self.int_atom()),
            7 if self.cfg.random && self.rng.chance(1, 2) => Expr::Call(
                "RANDOM".into(),
                vec![Expr::Int(1), Expr::Int(2 + self.rng.below(5) as i32)],
            ),
            _ => self.int_atom(),
        }
    }

    fn fn_call(&mut self, ret: Ty, depth: usize) -> Option<Expr> {
        let cands: Vec<(String, Vec<Ty>, Ty)> = self
            .meta
            .functions
            .iter()
            .filter(|f| f.2 == ret)
            .cloned()
            .collect();
        // functions are planned after flow knots; at plan time meta.functions is complete
        if cands.is_empty() {
            return None;
        }
        let f = self.rng.pick(&cands).clone();
        let args: Vec<Expr> = f
            .1
            .iter()
            .map(|t| match t {
                Ty::Str => self.str_expr(0),
                _ => self.int_expr(depth.min(1)),
            })
            .collect();
        Some(Expr::Call(f.0, args))
    }

    pub fn bool_expr(&mut self, depth: usize) -> Expr {
        if depth == 0 || self.rng.chance(1, 3) {
            return match self.rng.below(5) {
                0 => Expr::Var(self.rng.pick(&self.meta.bool_globals.clone()).clone()),
                1 => Expr::Bool(self.rng.chance(1, 2)),
                _ => {
                    let op = *self.rng.pick(&[BinOp::Eq, BinOp::Ne, BinOp::Lt, BinOp::Le, BinOp::Gt, BinOp::Ge]);
                    Expr::Bin(Box::new(self.int_atom()), op, Box::new(self.int_atom()))
                }
            };
        }
        match self.rng.below(6) {
            0 => Expr::Bin(Box::new(self.bool_expr(depth - 1)), BinOp::And, Box::new(self.bool_expr(depth - 1))),
            1 => Expr::Bin(Box::new(self.bool_expr(depth - 1)), BinOp::Or, Box::new(self.bool_expr(depth - 1))),
            2 => Expr::Not(Box::new(self.bool_expr(depth - 1))),
            3 if self.cfg.strings => {
                Expr::Bin(Box::new(self.str_expr(0)), *self.rng.pick(&[BinOp::Eq, BinOp::Ne]), Box::new(self.str_expr(0)))
            }
            4 if self.cfg.functions && !self.in_function => self.fn_call(Ty::Bool, depth - 1).unwrap_or_else(|| self.bool_expr(0)),
            _ => {
                let op = *self.rng.pick(&[BinOp::Eq, BinOp::Ne, BinOp::Lt, BinOp::Le, BinOp::Gt, BinOp::Ge]);
                Expr::Bin(Box::new(self.int_expr(depth - 1)), op, Box::new(self.int_expr(depth - 1)))
            }
        }
    }

    pub fn str_expr(&mut self, depth: usize) -> Expr {
        let mut opts = vec![Expr::Str(self.word())];
        if !self.meta.str_globals.is_empty() {
            opts.push(Expr::Var(self.rng.pick(&self.meta.str_globals.clone()).clone()));
        }
        for (n, t) in self.scope.iter() {
            if *t == Ty::Str {
                opts.push(Expr::Var(n.clone()));
            }
        }
        if depth > 0 && self.rng.chance(1, 2) {
            return Expr::Bin(Box::new(self.str_expr(depth - 1)), BinOp::Add, Box::new(self.str_expr(depth - 1)));
        }
        let i = self.rng.below(opts.len());
        opts.swap_remove(i)
    }

    fn list_item(&mut self) -> Option<String> {
        if self.lists.is_empty() {
            return None;
        }
        let l = self.rng.pick(&self.lists.clone()).clone();
        let it = self.rng.pick(&l.items).clone();
        Some(if self.rng.chance(1, 2) { format!("{}.{}", l.name, it.0) } else { it.0 })
    }

    // ---------------------------------------------------------------- inline content

    fn inline_pieces(&mut self, allow_tags: bool, simple: bool) -> Vec<Inline> {
        let mut v = vec![Inline::Text(self.text())];
        if simple {
            return v;
        }
        let n = self.rng.below(3);
        for _ in 0..n {
            v.push(Inline::Text(" ".into()));
            match self.rng.below(9) {
                0 | 1 => v.push(Inline::Expr(self.int_expr(1))),
                2 if self.cfg.strings => v.push(Inline::Expr(self.str_expr(1))),
                3 if self.cfg.inline_cond => {
                    let c = self.bool_expr(1);
                    let a = vec![Inline::Text(self.text())];
                    let b = if self.rng.chance(1, 2) { Some(vec![Inline::Text(self.text())]) } else { None };
                    v.push(Inline::Cond(c, a, b));
                }
                4 | 5 if self.cfg.sequences => {
                    let mut kinds = vec![SeqKind::Stopping, SeqKind::Cycle, SeqKind::Once];
                    if self.cfg.shuffles {
                        kinds.push(SeqKind::Shuffle);
                    }
                    let kind = *self.rng.pick(&kinds);
                    let n = 2 + self.rng.below(2);
                    let alts = (0..n).map(|_| vec![Inline::Text(self.text())]).collect();
                    v.push(Inline::Seq(kind, alts));
                }
                6 if self.cfg.fn_text && self.cfg.functions && !self.in_function => {
                    if let Some(c) = self.fn_call(Ty::Int, 1) {
                        v.push(Inline::Expr(c));
                    }
                }
                7 if self.cfg.lists && !self.meta.list_globals.is_empty() => {
                    let l = self.rng.pick(&self.meta.list_globals.clone()).clone();
                    v.push(Inline::Expr(Expr::Var(l)));
                }
                _ => v.push(Inline::Text(self.word())),
            }
        }
        if allow_tags && self.cfg.tags && self.rng.chance(1, 4) {
            for _ in 0..1 + self.rng.below(2) {
                let t = format!("t{}", self.marker());
                v.push(Inline::Tag(t));
            }
        }
        v
    }

    fn content_line(&mut self) -> Stmt {
        let mut v = self.inline_pieces(true, false);
        if self.cfg.no_glue_with_tags && v.iter().any(|x| matches!(x, Inline::Tag(_))) {
            return Stmt::Line(v, None);
        }
        if self.cfg.glue && self.rng.chance(1, 6) {
            // trailing glue must come before tags
            let pos = v.iter().position(|x| matches!(x, Inline::Tag(_))).unwrap_or(v.len());
            v.insert(pos, Inline::Glue);
        }
        if self.cfg.glue && self.rng.chance(1, 8) {
            v.insert(0, Inline::Glue);
        }
        Stmt::Line(v, None)
    }

    fn assign_global(&mut self) -> Stmt {
        if self.cfg.floats && self.rng.chance(1, 5) {
            let g = if self.rng.chance(1, 2) { "gf0" } else { "gf1" };
            let d = *self.rng.pick(&[0.00000005f32, 0.00000005, 0.0000001, 0.5, 0.25]);
            let op = *self.rng.pick(&[BinOp::Add, BinOp::Sub]);
            return Stmt::Assign { temp_decl: false, name: g.into(), op: AssignOp::Set, expr: Expr::Bin(Box::new(Expr::Var(g.into())), op, Box::new(Expr::Float(d))) };
        }
        match self.rng.below(6) {
            0 if self.cfg.strings && !self.meta.str_globals.is_empty() => Stmt::Assign {
                temp_decl: false,
                name: self.rng.pick(&self.meta.str_globals.clone()).clone(),
                op: AssignOp::Set,
                expr: self.str_expr(1),
            },
            1 => Stmt::Assign {
                temp_decl: false,
                name: self.rng.pick(&self.meta.bool_globals.clone()).clone(),
                op: AssignOp::Set,
                expr: self.bool_expr(1),
            },
            2 if self.cfg.lists && !self.meta.list_globals.is_empty() => {
                let name = self.rng.pick(&self.meta.list_globals.clone()).clone();
                match self.list_item() {
                    Some(it) => Stmt::Assign {
                        temp_decl: false,
                        name,
                        op: *self.rng.pick(&[AssignOp::Add, AssignOp::Sub]),
                        expr: Expr::Var(it),
                    },
                    None => self.content_line(),
                }
            }
            3 => Stmt::Assign {
                temp_decl: false,
                name: self.rng.pick(&self.meta.int_globals.clone()).clone(),
                op: *self.rng.pick(&[AssignOp::Add, AssignOp::Sub]),
                expr: Expr::Int(1 + self.rng.below(3) as i32),
            },
            _ => Stmt::Assign {
                temp_decl: false,
                name: self.rng.pick(&self.meta.int_globals.clone()).clone(),
                op: AssignOp::Set,
                expr: self.int_expr(2),
            },
        }
    }

    /// statements allowed inside conditional / sequence branches: lines and assignments only
    fn simple_block(&mut self, n: usize, plain: bool) -> Vec<Stmt> {
        let mut v = Vec::new();
        for _ in 0..n.max(1) {
            if self.rng.chance(1, 3) {
                v.push(self.assign_global());
            } else if plain {
                // branches of multi-line sequences: text and plain {expr} only
                let mut pieces = vec![Inline::Text(self.text())];
                if self.rng.chance(1, 3) {
                    pieces.push(Inline::Text(" ".into()));
                    pieces.push(Inline::Expr(self.int_atom()));
                }
                v.push(Stmt::Line(pieces, None));
            } else {
                let simple = self.rng.chance(1, 2);
                let pieces = self.inline_pieces(false, simple);
                v.push(Stmt::Line(pieces, None));
            }
        }
        if !v.iter().any(|s| matches!(s, Stmt::Line(..))) {
            let t = self.text();
            v.push(Stmt::Line(vec![Inline::Text(t)], None));
        }
        v
    }

    fn tunnel_call(&mut self) -> Option<Stmt> {
        if !self.cfg.tunnels || self.in_function || self.meta.tunnel_knots.is_empty() {
            return None;
        }
        // tunnels may only call later tunnels (no recursion)
        let cands: Vec<KnotPlan> = self
            .plans
            .iter()
            .enumerate()
            .filter(|(i, p)| p.kind == KnotKind::Tunnel && (self.plans[self.cur_knot].kind != KnotKind::Tunnel || *i > self.cur_knot))
            .map(|(_, p)| p.clone())
            .collect();
        if cands.is_empty() {
            return None;
        }
        let t = self.rng.pick(&cands).clone();
        let args = t.params.iter().map(|_| self.int_expr(1)).collect();
        Some(Stmt::Tunnel(t.name, args))
    }

    /// a run of content / logic statements without choices
    fn content_run(&mut self, externals: &[External], n: usize) -> Vec<Stmt> {
        let mut v = Vec::new();
        for _ in 0..n {
            if self.cfg.thread_boost
                && self.cfg.threads
                && !self.in_function
                && !self.in_thread
                && self.plans[self.cur_knot].kind == KnotKind::Flow
                && !self.meta.thread_knots.is_empty()
                && self.rng.chance(1, 5)
            {
                let t = self.rng.pick(&self.meta.thread_knots.clone()).clone();
                v.push(Stmt::Thread(t));
                continue;
            }
            if self.cfg.call_mid_expression_boost && self.cfg.functions && !self.in_function && self.rng.chance(1, 5)
                && let Some(call) = self.fn_call(Ty::Int, 1)
            {
                let left = self.int_atom();
                let e = Expr::Bin(Box::new(left), *self.rng.pick(&[BinOp::Add, BinOp::Mul, BinOp::Sub]), Box::new(call));
                if self.rng.chance(1, 2) {
                    let g = self.rng.pick(&self.meta.int_globals.clone()).clone();
                    v.push(Stmt::Assign { temp_decl: false, name: g, op: AssignOp::Set, expr: e });
                } else {
                    let t = self.text();
                    v.push(Stmt::Line(vec![Inline::Text(format!("{t} ")), Inline::Expr(e)], None));
                }
                continue;
            }
            if self.cfg.identity_then_change && self.rng.chance(1, 6) {
                if self.rng.chance(1, 2) {
                    let g = self.rng.pick(&self.meta.int_globals.clone()).clone();
                    v.push(Stmt::Assign { temp_decl: false, name: g.clone(), op: AssignOp::Set, expr: Expr::Var(g.clone()) });
                    v.push(Stmt::Assign { temp_decl: false, name: g, op: AssignOp::Add, expr: Expr::Int(1 + self.rng.below(3) as i32) });
                } else {
                    let g = self.rng.pick(&self.meta.bool_globals.clone()).clone();
                    v.push(Stmt::Assign { temp_decl: false, name: g.clone(), op: AssignOp::Set, expr: Expr::Var(g.clone()) });
                    v.push(Stmt::Assign { temp_decl: false, name: g.clone(), op: AssignOp::Set, expr: Expr::Not(Box::new(Expr::Var(g))) });
                }
                continue;
            }
            if self.cfg.floats && self.rng.chance(1, 10) {
                let t = self.text();
                let (a, b) = (self.text(), self.text());
                v.push(Stmt::Line(vec![Inline::Text(format!("{t} ")), Inline::Cond(Expr::Bin(Box::new(Expr::Var("gf0".into())), BinOp::Lt, Box::new(Expr::Float(1.0))), vec![Inline::Text(a)], Some(vec![Inline::Text(b)])),
                    Inline::Text(" ".into()), Inline::Cond(Expr::Bin(Box::new(Expr::Var("gf1".into())), BinOp::Gt, Box::new(Expr::Float(0.0))), vec![Inline::Text("up".into())], Some(vec![Inline::Text("flat".into())]))], None));
                continue;
            }
            match self.rng.below(16) {
                0..=4 => v.push(self.content_line()),
                5 | 6 => {
                    v.push(self.assign_global());
                    if self.cfg.lookahead_effects && self.rng.chance(1, 2) {
                        // effect right after a line end, followed by glue (kept) or text (rewound)
                        let mut l = self.inline_pieces(false, true);
                        if self.cfg.glue && self.rng.chance(1, 2) {
                            l.insert(0, Inline::Glue);
                        }
                        v.push(Stmt::Line(l, None));
                    }
                }
                7 if self.cfg.block_cond => {
                    let nb = 1 + self.rng.below(2);
                    let mut branches = Vec::new();
                    for _ in 0..nb {
                        let c = self.bool_expr(1);
                        let nb2 = 1 + self.rng.below(2);
                        let b = self.simple_block(nb2, false);
                        branches.push((c, b));
                    }
                    let mut els = if self.rng.chance(1, 2) { Some(self.simple_block(1, false)) } else { None };
                    if self.cfg.layout_variants && !self.in_function && !self.in_thread {
                        // a branch may leave: forward divert in a flow knot, tunnel return in a tunnel
                        let kind = self.plans[self.cur_knot].kind;
                        let cur = self.cur_knot;
                        let mut leave = |me: &mut Self, b: &mut Vec<Stmt>| {
                            if me.rng.chance(1, 4) {
                                match kind {
                                    KnotKind::Flow => b.push(Stmt::Divert(me.forward_target(cur))),
                                    KnotKind::Tunnel => b.push(Stmt::TunnelReturn),
                                    _ => {}
                                }
                            }
                        };
                        for (_, b) in branches.iter_mut() {
                            leave(self, b);
                        }
                        if let Some(b) = els.as_mut() {
                            leave(self, b);
                        }
                    }
                    v.push(Stmt::If(branches, els));
                }
                8 if self.cfg.sequences => {
                    let mut kinds = vec![SeqKind::Stopping, SeqKind::Cycle, SeqKind::Once];
                    if self.cfg.shuffles {
                        kinds.push(SeqKind::Shuffle);
                    }
                    let kind = *self.rng.pick(&kinds);
                    let n = 2 + self.rng.below(2);
                    let alts = (0..n).map(|_| self.simple_block(1, true)).collect();
                    v.push(Stmt::SeqBlock(kind, alts));
                }
                9 if self.cfg.tunnels && !self.in_function && !self.meta.tunnel_knots.is_empty() => {
                    // tunnels may only call later tunnels (no recursion)
                    let cands: Vec<KnotPlan> = self
                        .plans
                        .iter()
                        .enumerate()
                        .filter(|(i, p)| p.kind == KnotKind::Tunnel && (self.plans[self.cur_knot].kind != KnotKind::Tunnel || *i > self.cur_knot))
                        .map(|(_, p)| p.clone())
                        .collect();
                    if !cands.is_empty() {
                        let t = self.rng.pick(&cands).clone();
                        let args = t.params.iter().map(|_| self.int_expr(1)).collect();
                        v.push(Stmt::Tunnel(t.name, args));
                    }
                }
                10 if self.cfg.threads
                    && !self.in_function
                    && !self.in_thread
                    && self.plans[self.cur_knot].kind == KnotKind::Flow
                    && !self.meta.thread_knots.is_empty() =>
                {
                    let t = self.rng.pick(&self.meta.thread_knots.clone()).clone();
                    v.push(Stmt::Thread(t));
                }
                11 if self.cfg.functions && !self.in_function => {
                    if let Some(c) = self.fn_call(Ty::Int, 1) {
                        v.push(Stmt::Eval(c));
                    }
                }
                12 if self.cfg.externals && !externals.is_empty() && !self.in_function => {
                    let x = self.rng.pick(externals).clone();
                    let args: Vec<Expr> = x.params.iter().map(|_| self.int_expr(1)).collect();
                    let call = Expr::Call(x.name.clone(), args);
                    if self.rng.chance(1, 2) {
                        let t = self.text();
                        v.push(Stmt::Line(vec![Inline::Text(t), Inline::Text(" ".into()), Inline::Expr(call)], None));
                    } else {
                        v.push(Stmt::Assign {
                            temp_decl: false,
                            name: self.meta.int_globals[0].clone(),
                            op: AssignOp::Set,
                            expr: call,
                        });
                    }
                }
                13 if self.cfg.random => {
                    v.push(Stmt::Assign {
                        temp_decl: false,
                        name: self.rng.pick(&self.meta.int_globals.clone()).clone(),
                        op: AssignOp::Set,
                        expr: Expr::Call("RANDOM".into(), vec![Expr::Int(0), Expr::Int(1 + self.rng.below(9) as i32)]),
                    });
                }
                14 if self.cfg.lists && !self.meta.list_globals.is_empty() => {
                    let l = self.rng.pick(&self.meta.list_globals.clone()).clone();
                    let t = self.text();
                    let mut fs = vec!["LIST_COUNT", "LIST_MIN", "LIST_MAX", "LIST_ALL", "LIST_INVERT", "LIST_VALUE"];
                    if self.cfg.random {
                        fs.push("LIST_RANDOM");
                        fs.push("LIST_RANDOM");
                    }
                    let f = *self.rng.pick(&fs);
                    v.push(Stmt::Line(
                        vec![Inline::Text(t), Inline::Text(" ".into()), Inline::Expr(Expr::Call(f.into(), vec![Expr::Var(l)]))],
                        None,
                    ));
                }
                15 if self.cfg.turns_since && !self.in_function => {
                    let k = self.rng.pick(&self.meta.flow_knots.clone()).clone();
                    let t = self.text();
                    v.push(Stmt::Line(
                        vec![Inline::Text(t), Inline::Text(" ".into()), Inline::Expr(Expr::TurnsSince(k))],
                        None,
                    ));
                }
                _ => v.push(self.content_line()),
            }
        }
        v
    }

    // ---------------------------------------------------------------- weave

    fn forward_target(&mut self, flow_idx: usize) -> Target {
        let nflow = self.meta.flow_knots.len();
        if flow_idx + 1 >= nflow || self.rng.chance(1, 6) {
            return match self.rng.below(6) {
                0 => Target::Done,
                1 | 2 => Target::Named("kz".into()),
                _ => Target::End,
            };
        }
        let j = flow_idx + 1 + self.rng.below(nflow - flow_idx - 1);
        Target::Named(format!("k{j}"))
    }

    fn choice_pieces(&mut self, simple: bool) -> Vec<Inline> {
        if !self.cfg.plain_choice_text {
            return self.inline_pieces(false, simple);
        }
        let mut v = vec![Inline::Text(self.text())];
        if !simple {
            v.push(Inline::Text(" ".into()));
            let g = self.rng.pick(&self.meta.int_globals.clone()).clone();
            v.push(Inline::Expr(Expr::Var(g)));
        }
        v
    }

    fn choice_text(&mut self) -> (Vec<Inline>, Option<Vec<Inline>>, Vec<Inline>) {
        let (mut st, mut only, mut end) = self.choice_text_untagged();
        if self.cfg.choice_tags && self.cfg.tags {
            if !st.is_empty() && self.rng.chance(1, 5) {
                // the tag goes before the space that separates the text from the bracket
                let trailing_space = matches!(st.last(), Some(Inline::Text(t)) if t == " ");
                if trailing_space {
                    st.pop();
                }
                // (whatever follows a tag up to the bracket is part of the tag, so no space is written after it)
                st.push(Inline::Tag(format!("t{}", self.marker())));
            }
            if let Some(o) = only.as_mut()
                && !o.is_empty()
                && self.rng.chance(1, 5)
            {
                o.push(Inline::Tag(format!("t{}", self.marker())));
            }
            if !end.is_empty() && self.rng.chance(1, 5) {
                end.push(Inline::Tag(format!("t{}", self.marker())));
            }
        }
        (st, only, end)
    }

    fn choice_text_untagged(&mut self) -> (Vec<Inline>, Option<Vec<Inline>>, Vec<Inline>) {
        let (mut st, only, mut end) = self.choice_text_spaced();
        if self.cfg.layout_variants && only.is_some() && self.rng.chance(1, 4) {
            // brackets written tight against the text
            if matches!(st.last(), Some(Inline::Text(t)) if t == " ") {
                st.pop();
            }
            if let Some(Inline::Text(t)) = end.first_mut()
                && t.starts_with(' ')
            {
                *t = t.trim_start().to_string();
            }
        }
        (st, only, end)
    }

    fn choice_text_spaced(&mut self) -> (Vec<Inline>, Option<Vec<Inline>>, Vec<Inline>) {
        let simple = self.rng.chance(2, 3);
        // spaces are written outside the brackets ("start [only] end"), the documented layout
        match self.rng.below(5) {
            0 => (self.choice_pieces(simple), None, vec![]),
            1 => (vec![], Some(self.choice_pieces(simple)), vec![]),
            2 => {
                let mut st = self.choice_pieces(simple);
                st.push(Inline::Text(" ".into()));
                (st, Some(vec![Inline::Text(self.word())]), vec![Inline::Text(format!(" {}", self.text()))])
            }
            3 => (vec![], Some(self.choice_pieces(simple)), vec![Inline::Text(self.text())]),
            _ => {
                let mut st = self.choice_pieces(simple);
                st.push(Inline::Text(" ".into()));
                (st, Some(vec![]), vec![Inline::Text(self.text())])
            }
        }
    }

    /// One weave section at `depth`: content, a choice group, a gather. `exit` = where flow must go afterwards.
    fn weave(&mut self, flow_idx: usize, depth: usize, externals: &[External], loops: bool, self_name: &str) -> Vec<Stmt> {
        let cfg = self.cfg;
        let mut n = cfg.run_len.0 + self.rng.below(cfg.run_len.1 - cfg.run_len.0 + 1);
        // sometimes the choices come first: whatever their conditions read (turn and visit counters of the knot just
        // entered, CHOICE_COUNT) is then evaluated straight after the divert that led here, i.e. while the engine is
        // still deciding whether the previous line is over
        let choices_first = cfg.layout_variants && depth == 0 && !self.in_function && self.rng.chance(1, 5);
        if choices_first {
            n = 0;
        }
        let mut v = self.content_run(externals, n);
        let nchoices = 1 + self.rng.below(3);
        let first_choice_at = v.len();
        let mut any_sticky = false;
        for ci in 0..nchoices {
            let sticky = cfg.sticky && self.rng.chance(1, 4);
            any_sticky |= sticky;
            let label = if cfg.labels && self.rng.chance(1, 4) {
                let l = format!("c{}", self.marker());
                Some(l)
            } else {
                None
            };
            let mut conds = Vec::new();
            if choices_first && ci > 0 && self.plans[self.cur_knot].kind == KnotKind::Flow && cfg.turns_since && self.rng.chance(1, 2) {
                let me = self.plans[self.cur_knot].name.clone();
                let probe = if self.rng.chance(1, 2) { Expr::TurnsSince(me) } else { Expr::ReadCount(me) };
                let op = *self.rng.pick(&[BinOp::Eq, BinOp::Le, BinOp::Gt, BinOp::Ne]);
                conds.push(Expr::Bin(Box::new(probe), op, Box::new(Expr::Int(self.rng.below(3) as i32))));
            } else if self.rng.chance(1, 4) && ci > 0 {
                conds.push(self.bool_expr(1));
                if self.cfg.layout_variants && self.rng.chance(1, 4) {
                    conds.push(self.bool_expr(0));
                }
            }
            let (start, choice_only, end) = self.choice_text();
            let nbody = self.rng.below(3);
            let mut body = self.content_run(externals, nbody);
            if depth < cfg.nested_depth && self.rng.chance(1, 4) {
                body.extend(self.weave(flow_idx, depth + 1, externals, loops, self_name));
                // what follows the inner gather belongs to it; its last statement may be a tunnel call, whose
                // return must still find the way to the outer gather
                if cfg.layout_variants && self.rng.chance(1, 2) {
                    let n = self.rng.below(2);
                    body.extend(self.content_run(externals, n));
                    if let Some(t) = self.tunnel_call() {
                        body.push(t);
                    }
                }
            }
            // how the body ends: fall through to the gather, go forward, loop back, end
            let mut divert = None;
            match self.rng.below(8) {
                0 | 1 if !self.in_thread && !self.in_function && self.plans[self.cur_knot].kind == KnotKind::Flow => {
                    body.push(Stmt::Divert(self.forward_target(flow_idx)))
                }
                2 if loops && self.plans[self.cur_knot].kind == KnotKind::Flow => {
                    body.push(Stmt::Divert(Target::Named(self_name.to_string())))
                }
                3 if cfg.inline_diverts
                    && body.is_empty()
                    && !self.in_thread
                    && self.plans[self.cur_knot].kind == KnotKind::Flow =>
                {
                    divert = Some(self.forward_target(flow_idx))
                }
                _ => {}
            }
            if let Some(l) = &label {
                self.cur_labels.push(l.clone());
                self.meta.labels.push(format!("{}.{}", self.scope_path(), l));
            }
            v.push(Stmt::Choice(Choice {
                sticky,
                label,
                conds,
                start,
                choice_only,
                end,
                divert,
                body,
            }));
        }
        // a section that can be entered more than once must always offer something: a sticky unconditional
        // choice or a sticky fallback (otherwise the story legitimately runs out of content)
        let _ = any_sticky;
        if loops && self.cfg.allow_runout && self.rng.chance(1, 3) {
            // no guarantee: once the choices are used up this section has nothing to offer
        } else if loops {
            if cfg.fallback && self.rng.chance(1, 2) {
                let mut body = vec![];
                if self.rng.chance(1, 2) {
                    let t = self.text();
                    body.push(Stmt::Line(vec![Inline::Text(t)], None));
                }
                v.push(Stmt::Choice(Choice {
                    sticky: true,
                    label: None,
                    conds: vec![],
                    start: vec![],
                    choice_only: None,
                    end: vec![],
                    divert: None,
                    body,
                }));
            } else {
                let t = self.text();
                v.push(Stmt::Choice(Choice {
                    sticky: true,
                    label: None,
                    conds: vec![],
                    start: vec![Inline::Text(t)],
                    choice_only: None,
                    end: vec![],
                    divert: None,
                    body: vec![],
                }));
            }
        } else if cfg.fallback && self.rng.chance(1, 4) {
            let mut body = vec![];
            if self.rng.chance(1, 2) {
                let t = self.text();
                body.push(Stmt::Line(vec![Inline::Text(t)], None));
            }
            v.push(Stmt::Choice(Choice {
                sticky: false,
                label: None,
                conds: vec![],
                start: vec![],
                choice_only: None,
                end: vec![],
                divert: None,
                body,
            }));
        }
        if depth == 0
            && let Some((knot, kb)) = self.bounce.clone()
            && self.rng.chance(2, 3)
        {
            // out to the bounce knot and back: bounded by the knot's own read count
            let t = self.text();
            let probe = if self.rng.chance(1, 2) {
                Expr::Bin(Box::new(Expr::TurnsSince(knot.clone())), BinOp::Eq, Box::new(Expr::Int(0)))
            } else {
                Expr::Bin(Box::new(Expr::ReadCount(knot.clone())), BinOp::Ge, Box::new(Expr::Int(1)))
            };
            let bound = Expr::Bin(Box::new(Expr::ReadCount(knot.clone())), BinOp::Lt, Box::new(Expr::Int(3 + self.rng.below(2) as i32)));
            let ch = Stmt::Choice(Choice { sticky: true, label: None, conds: vec![bound, probe], start: vec![], choice_only: Some(vec![Inline::Text(t)]), end: vec![], divert: None, body: vec![Stmt::Divert(Target::Named(kb))] });
            // first or last among the choices of this group
            if self.rng.chance(1, 2) { v.insert(first_choice_at, ch) } else { v.push(ch) }
        }
        // a way back to an earlier labelled gather of this section: `+ {label < 3} [again] -> label`, kept company by
        // an unconditional sticky choice so that the section never runs dry
        if cfg.layout_variants && depth == 0 && !self.in_thread && !self.in_function && !self.section_gathers.is_empty() && self.rng.chance(1, 2) {
            let label = self.rng.pick(&self.section_gathers.clone()).clone();
            let t = self.text();
            v.push(Stmt::Choice(Choice {
                sticky: true,
                label: None,
                conds: vec![Expr::Bin(Box::new(Expr::ReadCount(label.clone())), BinOp::Lt, Box::new(Expr::Int(2 + self.rng.below(2) as i32)))],
                start: vec![],
                choice_only: Some(vec![Inline::Text(t)]),
                end: vec![],
                divert: None,
                body: vec![Stmt::Divert(Target::Named(label))],
            }));
            let t = self.text();
            v.push(Stmt::Choice(Choice { sticky: true, label: None, conds: vec![], start: vec![Inline::Text(t)], choice_only: None, end: vec![], divert: None, body: vec![] }));
        }
        // a fallback may be written before the visible choices: it is generated first and still stays invisible
        if cfg.layout_variants && self.rng.chance(1, 3)
            && let Some(pos) = v.iter().rposition(|s| matches!(s, Stmt::Choice(c) if c.is_fallback() && c.divert.is_none()))
            && pos > first_choice_at
        {
            let f = v.remove(pos);
            v.insert(first_choice_at, f);
        }
        // gather
        let glabel = if cfg.labels && self.rng.chance(1, 3) {
            let l = format!("g{}", self.marker());
            if depth == 0 {
                self.section_gathers.push(l.clone());
            }
            self.cur_labels.push(l.clone());
            self.meta.labels.push(format!("{}.{}", self.scope_path(), l));
            Some(l)
        } else {
            None
        };
        let gsimple = self.rng.chance(1, 2);
        let gtext = self.inline_pieces(true, gsimple);
        let mut gather = Stmt::Gather(glabel, gtext, None);
        if let Stmt::Gather(_, xs, _) = &mut gather
            && xs.is_empty()
            && self.rng.chance(1, 2)
        {
            let t = self.text();
            xs.push(Inline::Text(t));
        }
        v.push(gather);
        v
    }

    fn scope_path(&self) -> String {
        self.cur_scope.clone()
    }

    fn flow_knot(&mut self, flow_idx: usize, plan: &KnotPlan, externals: &[External]) -> (Vec<Stmt>, Vec<Stitch>) {
        let mut sections: Vec<(String, String)> = vec![(plan.name.clone(), plan.name.clone())];
        for s in plan.stitches.iter() {
            sections.push((format!("{}.{}", plan.name, s), s.clone()));
        }
        let mut bodies = Vec::new();
        for (si, (path, _)) in sections.iter().enumerate() {
            self.cur_scope = path.clone();
            self.cur_labels.clear();
            self.section_gathers.clear();
            self.bounce = None;
            if si == 0 && plan.loops && self.cfg.layout_variants && self.rng.chance(1, 2) {
                let kb = format!("kb{flow_idx}");
                let t = self.text();
                self.extra_knots.push(Knot { name: kb.clone(), kind: KnotKind::Flow, params: vec![], body: vec![Stmt::Line(vec![Inline::Text(t)], None), Stmt::Divert(Target::Named(plan.name.clone()))], stitches: vec![] });
                self.bounce = Some((plan.name.clone(), kb));
            }
            self.scope = plan.params.clone();
            let mut body = Vec::new();
            // temps first so they are in scope on every path
            for t in 0..self.rng.below(2) {
                let name = format!("t{}_{}_{}", flow_idx, si, t);
                body.push(Stmt::Assign {
                    temp_decl: true,
                    name: name.clone(),
                    op: AssignOp::Set,
                    expr: self.int_expr(1),
                });
                self.scope.push((name, Ty::Int));
            }
            let rounds = 1 + self.rng.below(2);
            for _ in 0..rounds {
                if self.rng.chance(4, 5) {
                    body.extend(self.weave(flow_idx, 0, externals, plan.loops, path));
                } else {
                    let n = 1 + self.rng.below(3);
                    body.extend(self.content_run(externals, n));
                }
            }
            // terminal
            let next = if si + 1 < sections.len() {
                Target::Named(sections[si + 1].0.clone())
            } else {
                self.forward_target(flow_idx)
            };
            let next = match next {
                // a stitch of this knot may be addressed by its bare name
                Target::Named(n) if self.cfg.layout_variants && n.starts_with(&format!("{}.", plan.name)) && self.rng.chance(1, 2) => {
                    Target::Named(n.split_once('.').unwrap().1.to_string())
                }
                other => other,
            };
            if self.cfg.layout_variants && self.rng.chance(1, 3) {
                // "text -> target" on one line
                let simple = self.rng.chance(1, 2);
                let pieces = self.inline_pieces(false, simple);
                body.push(Stmt::Line(pieces, Some(next)));
            } else {
                body.push(Stmt::Divert(next));
            }
            if path.contains('.') {
                self.meta.labels.push(path.clone());
            }
            bodies.push(body);
        }
        let main = bodies.remove(0);
        let stitches = plan
            .stitches
            .iter()
            .zip(bodies)
            .map(|(n, b)| Stitch { name: n.clone(), body: b })
            .collect();
        (main, stitches)
    }

    fn tunnel_body(&mut self, externals: &[External]) -> Vec<Stmt> {
        self.cur_scope = self.plans[self.cur_knot].name.clone();
        let n = 1 + self.rng.below(3);
        let mut v = self.content_run(externals, n);
        if self.rng.chance(1, 3) {
            let name = self.cur_scope.clone();
            v.extend(self.weave(0, 0, externals, true, &name));
        }
        v.push(Stmt::TunnelReturn);
        v
    }

    fn thread_body(&mut self, externals: &[External]) -> Vec<Stmt> {
        self.cur_scope = self.plans[self.cur_knot].name.clone();
        let nrun = if self.cfg.thread_boost { 1 + self.rng.below(3) } else { self.rng.below(2) };
        let mut v = self.content_run(externals, nrun);
        let nflow = self.meta.flow_knots.len();
        if self.cfg.thread_fallbacks && self.rng.chance(1, 3) {
            // the thread's only choice is a fallback
            let t = self.text();
            v.push(Stmt::Choice(Choice { sticky: false, label: None, conds: vec![], start: vec![], choice_only: None, end: vec![], divert: None,
                body: vec![Stmt::Line(vec![Inline::Text(t)], None), Stmt::Divert(Target::Named("kz".into()))] }));
            v.push(Stmt::Gather(None, vec![], Some(Target::Done)));
            return v;
        }
        for _ in 0..1 + self.rng.below(2) {
            let (start, choice_only, end) = self.choice_text();
            let nbody = self.rng.below(2);
            let mut body = self.content_run(externals, nbody);
            let _ = nflow;
            // thread choices leave to the sink knot (re-entering a flow knot whose once-only choices are used up
            // would legitimately run out of content)
            body.push(Stmt::Divert(match self.rng.below(4) {
                0 => Target::End,
                1 => Target::Done,
                _ => Target::Named("kz".into()),
            }));
            v.push(Stmt::Choice(Choice {
                sticky: false,
                label: None,
                conds: vec![],
                start,
                choice_only,
                end,
                divert: None,
                body,
            }));
        }
        v.push(Stmt::Gather(None, vec![], Some(Target::Done)));
        v
    }

    fn function_body(&mut self, plan: &KnotPlan) -> Vec<Stmt> {
        self.cur_scope = plan.name.clone();
        let mut v = Vec::new();
        let n = if self.cfg.call_mid_expression_boost { 2 + self.rng.below(2) } else if self.cfg.multiline_functions { self.rng.below(3) } else { self.rng.below(2) };
        let my_index: usize = plan.name.trim_start_matches("fn").parse().unwrap_or(0);
        let later: Vec<(String, Vec<Ty>, Ty)> = self
            .meta
            .functions
            .iter()
            .filter(|f| f.0.trim_start_matches("fn").parse::<usize>().map(|j| j > my_index).unwrap_or(false))
            .cloned()
            .collect();
        for _ in 0..n {
            if self.cfg.nested_functions && !later.is_empty() && self.rng.chance(1, 2) {
                let f = self.rng.pick(&later).clone();
                let args: Vec<Expr> = f.1.iter().map(|t| match t { Ty::Str => self.str_expr(0), _ => self.int_atom() }).collect();
                let call = Expr::Call(f.0.clone(), args);
                match self.rng.below(3) {
                    0 => v.push(Stmt::Eval(call)),
                    1 => {
                        let t = self.text();
                        v.push(Stmt::Line(vec![Inline::Expr(call), Inline::Text(format!(" {t}"))], None));
                    }
                    _ => {
                        let t = self.text();
                        v.push(Stmt::Line(vec![Inline::Text(format!("{t} ")), Inline::Expr(call)], None));
                    }
                }
                continue;
            }
            if self.cfg.pure_functions {
                // no sequences (they count visits), no assignments
                let mut pieces = vec![Inline::Text(self.text())];
                if self.rng.chance(1, 2) {
                    pieces.push(Inline::Text(" ".into()));
                    pieces.push(Inline::Expr(self.int_atom()));
                }
                v.push(Stmt::Line(pieces, None));
            } else if self.cfg.fn_text && self.rng.chance(1, 2) {
                let simple = self.rng.chance(1, 2);
                let pieces = self.inline_pieces(false, simple);
                v.push(Stmt::Line(pieces, None));
            } else {
                v.push(self.assign_global());
            }
        }
        if self.cfg.block_cond && self.rng.chance(1, 3) {
            let c = self.bool_expr(1);
            let r1 = self.ret_expr(plan.ret);
            v.push(Stmt::If(vec![(c, vec![Stmt::Return(Some(r1))])], None));
        }
        let r = self.ret_expr(plan.ret);
        v.push(Stmt::Return(Some(r)));
        v
    }

    fn ret_expr(&mut self, t: Ty) -> Expr {
        match t {
            Ty::Bool => self.bool_expr(1),
            _ => self.int_expr(2),
        }
    }
}

//! Order-preserving re-serialisation of JSON documents in different (all legal) spellings.
use serde_json::Value;

#[derive(Clone, Copy, Debug, PartialEq)]
pub struct Style {
    /// write every non-ASCII character as \uXXXX (surrogate pairs above the BMP)
    pub escape_non_ascii: bool,
    /// also write '/' as \/ and use \b \f short forms
    pub rare_escapes: bool,
    /// 0 = compact
    pub indent: usize,
    pub crlf: bool,
    /// floats with exponent (25e-1, 1E+2)
    pub exponent_floats: bool,
    /// spaces around ':' and ','
    pub loose: bool,
}

pub const STYLES: &[(&str, Style)] = &[
    ("compact", Style { escape_non_ascii: false, rare_escapes: false, indent: 0, crlf: false, exponent_floats: false, loose: false }),
    ("ascii-escaped", Style { escape_non_ascii: true, rare_escapes: false, indent: 0, crlf: false, exponent_floats: false, loose: false }),
    ("pretty-2", Style { escape_non_ascii: false, rare_escapes: false, indent: 2, crlf: false, exponent_floats: false, loose: false }),
    ("pretty-4-crlf-ascii", Style { escape_non_ascii: true, rare_escapes: true, indent: 4, crlf: true, exponent_floats: false, loose: false }),
    ("loose-exponent", Style { escape_non_ascii: false, rare_escapes: true, indent: 0, crlf: false, exponent_floats: true, loose: true }),
    ("tabs-rare", Style { escape_non_ascii: false, rare_escapes: true, indent: 1, crlf: false, exponent_floats: true, loose: false }),
];

fn write_str(out: &mut String, s: &str, st: &Style) {
    out.push('"');
    for c in s.chars() {
        match c {
            '"' => out.push_str("\\\""),
            '\\' => out.push_str("\\\\"),
            '\n' => out.push_str("\\n"),
            '\r' => out.push_str("\\r"),
            '\t' => out.push_str("\\t"),
            '\u{8}' if st.rare_escapes => out.push_str("\\b"),
            '\u{c}' if st.rare_escapes => out.push_str("\\f"),
            '/' if st.rare_escapes => out.push_str("\\/"),
            c if (c as u32) < 0x20 => out.push_str(&format!("\\u{:04x}", c as u32)),
            c if st.escape_non_ascii && (c as u32) > 0x7e => {
                let mut buf = [0u16; 2];
                for u in c.encode_utf16(&mut buf) {
                    out.push_str(&format!("\\u{:04X}", u));
                }
            }
            c => out.push(c),
        }
    }
    out.push('"');
}

fn newline(out: &mut String, st: &Style, level: usize) {
    if st.indent == 0 {
        return;
    }
    out.push_str(if st.crlf { "\r\n" } else { "\n" });
    let unit = if st.indent == 1 { "\t".to_string() } else { " ".repeat(st.indent) };
    for _ in 0..level {
        out.push_str(&unit);
    }
}

fn write(out: &mut String, v: &Value, st: &Style, level: usize) {
    match v {
        Value::Null => out.push_str("null"),
        Value::Bool(b) => out.push_str(if *b { "true" } else { "false" }),
        Value::Number(n) => {
            if n.is_f64() && st.exponent_floats {
                let f = n.as_f64().unwrap_or(0.0);
                // value * 10 with exponent -1 is exact for the short decimals the compiler emits
                let s = format!("{}", f);
                if let Some((int, frac)) = s.split_once('.') {
                    let digits = format!("{int}{frac}");
                    let digits = digits.trim_start_matches('0');
                    let neg = int.starts_with('-');
                    let digits = digits.trim_start_matches('-').trim_start_matches('0');
                    if digits.is_empty() {
                        out.push_str("0.0");
                    } else {
                        out.push_str(&format!("{}{}E-{}", if neg { "-" } else { "" }, digits, frac.len()));
                    }
                } else {
                    out.push_str(&s);
                }
            } else {
                out.push_str(&n.to_string());
            }
        }
        Value::String(s) => write_str(out, s, st),
        Value::Array(a) => {
            out.push('[');
            for (i, x) in a.iter().enumerate() {
                if i > 0 {
                    out.push(',');
                    if st.loose {
                        out.push(' ');
                    }
                }
                newline(out, st, level + 1);
                write(out, x, st, level + 1);
            }
            if !a.is_empty() {
                newline(out, st, level);
            }
            out.push(']');
        }
        Value::Object(o) => {
            out.push('{');
            for (i, (k, x)) in o.iter().enumerate() {
                if i > 0 {
                    out.push(',');
                    if st.loose {
                        out.push(' ');
                    }
                }
                newline(out, st, level + 1);
                write_str(out, k, st);
                out.push_str(if st.loose || st.indent > 0 { ": " } else { ":" });
                write(out, x, st, level + 1);
            }
            if !o.is_empty() {
                newline(out, st, level);
            }
            out.push('}');
        }
    }
}

pub fn render(v: &Value, st: &Style) -> String {
    let mut out = String::new();
    write(&mut out, v, st, 0);
    if st.indent > 0 {
        out.push_str(if st.crlf { "\r\n" } else { "\n" });
    }
    out
}

/// Replaces the text of some "^..." strings (story text, tags, choice text) by hostile text.
pub fn inject_text(v: &mut Value, rng: &mut crate::rng::Rng, count: &mut usize) {
    const HOSTILE: &[&str] = &[
        "tab\there", "quote\"inside", "back\\slash", "cr\rlf", "ctl\u{1}\u{1f}x", "del\u{7f}x", "ls\u{2028}ps\u{2029}", "bmp é ß 日本語 Ω", "emoji 🙂 𝄞", "even-plane 𠮷 \u{E0101} \u{10FFFD}",
        "slash / and \u{8}bs \u{c}ff", "nbsp\u{a0}zwsp\u{200b}", "combining e\u{301}", " leading and trailing ", "}{][,:",
        // the first and last code point of every UTF-8 sequence length and lead-byte range, each followed by ASCII
        // and by another multi-byte character
        "u80 \u{80}a\u{80}\u{e9} u7ff \u{7ff}b\u{7ff}\u{7c0}c", "u800 \u{800}d\u{800}\u{fff}e ud7ff \u{d7ff}f", "ue000 \u{e000}g\u{e000}\u{f8ff}h uffff \u{ff0c}i\u{fffd}j\u{ffff}k\u{fffd}\u{ff0c}",
        "u10000 \u{10000}l\u{10000}\u{3ffff}m u10ffff \u{10ffff}n\u{100000}\u{10ffff}",
    ];
    match v {
        Value::String(s) => {
            if s.starts_with('^') && s.len() > 1 && rng.chance(1, 3) {
                if rng.chance(1, 4) {
                    // text that itself begins with the character used as the text marker
                    *s = format!("^{}{}", rng.pick(&["^_^ ", "^", "^^ ", "^ caret "]), &s[1..]);
                } else {
                    *s = format!("^{} {}", &s[1..], rng.pick(HOSTILE));
                }
                *count += 1;
            }
        }
        Value::Array(a) => {
            for x in a.iter_mut() {
                inject_text(x, rng, count);
            }
        }
        Value::Object(o) => {
            for (k, x) in o.iter_mut() {
                if k == "listDefs" || k.starts_with('#') {
                    continue;
                }
                // not the targets of diverts etc.: only values that are containers
                if x.is_array() || x.is_object() {
                    inject_text(x, rng, count);
                }
            }
        }
        _ => {}
    }
}

//! Adaptive generation of valid host-call histories on a live control story.
use crate::player::{FullState, HostCfg, Op, Player, Rec, Val};
use crate::programs::Compiled;
use crate::rng::Rng;

#[derive(Clone, Debug)]
pub struct HistCfg {
    pub max_ops: usize,
    pub flows: bool,
    pub jumps: bool,
    pub cont_max: bool,
    pub set_vars: bool,
    pub stop_at_end: bool,
    /// sprinkle host calls that must be refused (choice index just out of range, choosing while the story can
    /// still continue, continuing when it cannot): they must return Err and never panic
    pub bad_calls: bool,
    /// knots a path jump may target (None: every knot whose name starts with 'k', i.e. generated flow knots)
    pub jump_targets: Option<Vec<String>>,
}

impl Default for HistCfg {
    fn default() -> Self {
        HistCfg {
            max_ops: 40,
            flows: false,
            jumps: false,
            cont_max: false,
            set_vars: false,
            stop_at_end: true, bad_calls: false,
            jump_targets: None,
        }
    }
}

#[derive(Clone, Debug)]
pub struct History {
    pub ops: Vec<Op>,
    pub recs: Vec<Rec>,
    pub final_state: FullState,
    pub fuel: bool,
    /// situation tags per op index (what the story was doing before the op)
    pub situ: Vec<String>,
}

pub fn situation(p: &mut Player) -> String {
    let mut s = String::new();
    if p.story.can_continue() {
        s.push_str("mid");
    } else if !p.story.get_current_choices().is_empty() {
        s.push_str("choice");
    } else {
        s.push_str("end");
    }
    let fp = p.story.verif_fingerprint();
    if fp.contains("flows=[\"") {
        s.push_str("+flows");
    }
    if let Some(t) = fp.split("threads=[").nth(1) {
        let inner = t.split(']').next().unwrap_or("");
        if inner.contains(',') {
            s.push_str("+threads");
        }
        if inner.split(',').any(|d| d.trim().parse::<usize>().unwrap_or(1) > 1) {
            s.push_str("+callstack");
        }
    }
    if !fp.contains("eval=0 ") {
        s.push_str("+evalstack");
    }
    s
}

/// Builds a history by playing a fresh control story; returns the ops with the control's observations.
pub fn gen_history(c: &Compiled, host: &HostCfg, rng: &mut Rng, h: &HistCfg) -> Result<History, String> {
    let mut p = Player::new(c.json.clone(), c.info.clone(), host.clone())?;
    Ok(gen_history_on(&mut p, c, rng, h))
}

/// Same, continuing on an existing player (its earlier records are not part of the result).
pub fn gen_history_on(p: &mut Player, c: &Compiled, rng: &mut Rng, h: &HistCfg) -> History {
    let first_rec = p.recs.len();
    let mut ops = Vec::new();
    let mut situ = Vec::new();
    let flow_names = ["fa", "fb"];
    // parameterless flow knots of generated programs: jumping into a knot that expects arguments is a
    // host error of its own (C04), not part of these histories
    let jump_targets: Vec<String> = match &h.jump_targets {
        Some(t) => t.clone(),
        None => c.info.knots.iter().filter(|k| c.name.starts_with("gen-") && k.starts_with('k') && k.as_str() != "kprobe").cloned().collect(),
    };
    let mut ended_flows = 0;
    while ops.len() < h.max_ops {
        let can = p.story.can_continue();
        let nchoices = p.story.get_current_choices().len();
        let op = if h.flows && rng.chance(1, 7) {
            match rng.below(3) {
                0 => Op::SwitchDefault,
                k => Op::SwitchFlow(flow_names[k - 1].to_string()),
            }
        } else if h.jumps && rng.chance(1, 12) && !jump_targets.is_empty() {
            let k = rng.pick(&jump_targets).clone();
            Op::ChoosePath(k, rng.chance(3, 4))
        } else if h.set_vars && rng.chance(1, 10) && !c.info.globals.is_empty() {
            // only assign a value of the variable's current type
            let g = rng.pick(&c.info.globals).clone();
            match p.story.get_variable(&g) {
                Some(bladeink::value_type::ValueType::Int(_)) => Op::SetVar(g, Val::Int(rng.below(6) as i32)),
                Some(bladeink::value_type::ValueType::Bool(_)) => Op::SetVar(g, Val::Bool(rng.chance(1, 2))),
                Some(bladeink::value_type::ValueType::String(_)) => Op::SetVar(g, Val::Str(format!("s{}", rng.below(4)))),
                _ => Op::GlobalTags,
            }
        } else if h.bad_calls && rng.chance(1, 9) {
            match rng.below(4) {
                0 => Op::Choose(nchoices),
                1 => Op::Choose(nchoices + 1),
                2 if can => Op::Choose(0),
                _ if !can => Op::Cont,
                _ => Op::Choose(nchoices + 2),
            }
        } else if can {
            if h.cont_max && rng.chance(1, 10) { Op::ContMax } else { Op::Cont }
        } else if nchoices > 0 {
            Op::Choose(rng.below(nchoices))
        } else if h.flows && ended_flows < 3 {
            ended_flows += 1;
            match rng.below(3) {
                0 => Op::SwitchDefault,
                k => Op::SwitchFlow(flow_names[k - 1].to_string()),
            }
        } else if h.stop_at_end {
            break;
        } else {
            Op::GlobalTags
        };
        situ.push(situation(p));
        let rec = p.apply(&op);
        let failed = rec.res.is_err();
        ops.push(op);
        if p.fuel_hit {
            break;
        }
        if failed && p.story.has_error() && !h.flows && !h.bad_calls {
            // story halted by an error: nothing more can happen without a reset
            break;
        }
    }
    History {
        ops,
        recs: p.recs[first_rec..].to_vec(),
        final_state: p.full_state(),
        fuel: p.fuel_hit,
        situ,
    }
}

/// Replays `ops` on a fresh story, inserting `extra` after position `at` (None = no perturbation).
pub fn replay(
    c: &Compiled,
    host: &HostCfg,
    ops: &[Op],
    at: Option<usize>,
    extra: &[Op],
) -> Result<(Vec<Rec>, Vec<Rec>, FullState, bool), String> {
    let mut p = Player::new(c.json.clone(), c.info.clone(), host.clone())?;
    let mut main = Vec::new();
    let mut injected = Vec::new();
    for (i, op) in ops.iter().enumerate() {
        main.push(p.apply(op));
        if at == Some(i) {
            for e in extra {
                injected.push(p.apply(e));
            }
        }
    }
    Ok((main, injected, p.full_state(), p.fuel_hit))
}

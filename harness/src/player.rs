//! Drives a `Story` through host operations and records observations.
use crate::rng::fnv;
use crate::storyinfo::StoryInfo;
use crate::util::canon_json;
use bladeink::story::Story;
use bladeink::story::errors::{ErrorHandler, ErrorType};
use bladeink::story::external_functions::ExternalFunction;
use bladeink::story::variable_observer::VariableObserver;
use bladeink::story_error::StoryError;
use bladeink::value_type::ValueType;
use serde_json::{Value, json};
use std::cell::{Cell, RefCell};
use std::rc::Rc;

pub const FUEL_MSG: &str = "VERIF_FUEL";

#[derive(Clone, Debug, PartialEq)]
pub enum Val {
    Int(i32),
    Float(f32),
    Bool(bool),
    Str(String),
}

impl Val {
    pub fn to_vt(&self) -> ValueType {
        match self {
            Val::Int(i) => ValueType::Int(*i),
            Val::Float(f) => ValueType::Float(*f),
            Val::Bool(b) => ValueType::Bool(*b),
            Val::Str(s) => ValueType::new::<&str>(s.as_str()),
        }
    }
    pub fn show(&self) -> String {
        show_value(&self.to_vt())
    }
}

pub fn show_value(v: &ValueType) -> String {
    match v {
        ValueType::Bool(b) => format!("bool:{b}"),
        ValueType::Int(i) => format!("int:{i}"),
        ValueType::Float(f) => format!("float:{f:?}"),
        ValueType::String(s) => format!("str:{:?}", s.string),
        ValueType::DivertTarget(p) => format!("divert:{p}"),
        ValueType::VariablePointer(_) => "varptr".to_string(),
        ValueType::List(l) => {
            let mut items: Vec<(i32, String)> = l
                .items
                .iter()
                .map(|(k, v)| (*v, k.get_full_name()))
                .collect();
            items.sort();
            // an empty list's origin is internal representation; its effect (LIST_ALL, LIST_INVERT of the
            // emptied list) is observed through what the story prints later
            let items: Vec<String> = items.iter().map(|(v, n)| format!("{n}={v}")).collect();
            format!("list:[{}]", items.join(","))
        }
    }
}

pub fn show_opt(v: &Option<ValueType>) -> String {
    match v {
        Some(v) => show_value(v),
        None => "none".to_string(),
    }
}

pub fn err_kind(e: &StoryError) -> &'static str {
    match e {
        StoryError::InvalidStoryState(_) => "InvalidStoryState",
        StoryError::BadJson(_) => "BadJson",
        StoryError::BadArgument(_) => "BadArgument",
    }
}

pub fn err_msg(e: &StoryError) -> String {
    match e {
        StoryError::InvalidStoryState(m) | StoryError::BadJson(m) | StoryError::BadArgument(m) => {
            m.clone()
        }
    }
}

/// The host's external function: an injective-looking pure function of (name, args).
pub fn ext_result(name: &str, args: &[String]) -> i32 {
    let key = format!("{name}({})", args.join(","));
    100 + (fnv(&key) % 899) as i32
}

#[derive(Clone, Debug, PartialEq)]
pub enum Op {
    Cont,
    ContMax,
    /// continue_async with a virtual-clock budget of n steps
    ContAsync(u64),
    Choose(usize),
    ChoosePath(String, bool),
    SwitchFlow(String),
    SwitchDefault,
    RemoveFlow(String),
    /// save, build a fresh story of the same program with the same host config, load
    SaveLoadFresh,
    /// save and load into the same instance
    SaveLoadSame,
    Reset,
    SetVar(String, Val),
    EvalFn(String, Vec<Val>),
    /// evaluate_function(name, [value of the named global as read by get_variable])
    EvalFnVarArg(String, String),
    Observe(usize, String),
    Unobserve(usize, Option<String>),
    Bind(String, bool),
    Unbind(String),
    LoadText(String),
    TagsAt(String),
    VisitCount(String),
    GlobalTags,
}

impl Op {
    pub fn show(&self) -> String {
        format!("{self:?}")
    }
}

#[derive(Clone, Debug, PartialEq, Default)]
pub struct Snap {
    pub can_continue: bool,
    pub text: String,
    pub tags: Vec<String>,
    pub choices: Vec<(String, Vec<String>)>,
    pub errors: Vec<String>,
    pub warnings: Vec<String>,
}

impl Snap {
    pub fn to_json(&self) -> Value {
        json!({"can_continue": self.can_continue, "text": self.text, "tags": self.tags,
            "choices": self.choices.iter().map(|c| json!({"text": c.0, "tags": c.1})).collect::<Vec<_>>(),
            "errors": self.errors, "warnings": self.warnings})
    }
}

#[derive(Clone, Debug, PartialEq)]
pub struct Rec {
    /// story position (get_current_path) before the call; informational, not compared by default
    pub pos: Option<String>,
    pub op: String,
    pub res: Result<String, (String, String)>,
    pub snap: Snap,
    pub events: Vec<String>,
    /// interpreter steps executed by this call (hook counter; informational)
    pub steps: u64,
}

impl Rec {
    pub fn to_json(&self) -> Value {
        let res = match &self.res {
            Ok(s) => json!({"ok": s}),
            Err((k, m)) => json!({"err": {"kind": k, "msg": m}}),
        };
        json!({"pos": self.pos, "op": self.op, "res": res, "snap": self.snap.to_json(), "events": self.events})
    }
    pub fn is_fuel(&self) -> bool {
        let in_res = match &self.res {
            Err((_, m)) => m.contains(FUEL_MSG),
            Ok(_) => false,
        };
        in_res || self.snap.errors.iter().any(|e| e.contains(FUEL_MSG))
            || self.events.iter().any(|e| e.contains(FUEL_MSG))
    }
}

#[derive(Clone, Debug, PartialEq, Default)]
pub struct FullState {
    pub vars: Vec<(String, String)>,
    pub visits: Vec<(String, i32)>,
}

impl FullState {
    pub fn to_json(&self) -> Value {
        json!({"vars": self.vars, "visits": self.visits.iter().filter(|v| v.1 != 0).collect::<Vec<_>>()})
    }
}

pub type Log = Rc<RefCell<Vec<String>>>;

struct ObsCb {
    id: usize,
    log: Log,
}
impl VariableObserver for ObsCb {
    fn changed(&mut self, variable_name: &str, value: &ValueType) {
        self.log
            .borrow_mut()
            .push(format!("obs#{} {}={}", self.id, variable_name, show_value(value)));
    }
}

struct HandlerCb {
    log: Log,
}
impl ErrorHandler for HandlerCb {
    fn error(&mut self, message: &str, error_type: ErrorType) {
        let t = if error_type == ErrorType::Error { "E" } else { "W" };
        self.log.borrow_mut().push(format!("handler {t} {message}"));
    }
}

struct ExtCb {
    log: Log,
    lines: Rc<Cell<usize>>,
    /// "ext" for bindings made by the host configuration, "ext-rebound" for those made by Op::Bind
    label: &'static str,
}
impl ExternalFunction for ExtCb {
    fn call(&mut self, func_name: &str, args: Vec<ValueType>) -> Option<ValueType> {
        let shown: Vec<String> = args.iter().map(show_value).collect();
        self.log.borrow_mut().push(format!(
            "{} {}({}) lines={}",
            self.label,
            func_name,
            shown.join(","),
            self.lines.get()
        ));
        Some(ValueType::Int(ext_result(func_name, &shown)))
    }
}

#[derive(Clone, Debug, Default)]
pub struct HostCfg {
    pub handler: bool,
    pub fallbacks: bool,
    pub fuel: Option<u64>,
    pub seed: Option<i32>,
    /// (name, lookahead_safe)
    pub bind: Vec<(String, bool)>,
    /// (observer id, variable)
    pub observe: Vec<(usize, String)>,
}

pub struct Player {
    pub story: Story,
    pub json: Rc<String>,
    pub info: Rc<StoryInfo>,
    pub cfg: HostCfg,
    pub log: Log,
    pub lines: Rc<Cell<usize>>,
    observers: Vec<(usize, Rc<RefCell<dyn VariableObserver>>)>,
    pub recs: Vec<Rec>,
    pub fuel_hit: bool,
}

pub const DEFAULT_FUEL: u64 = 20_000;

impl Player {
    pub fn new(json: Rc<String>, info: Rc<StoryInfo>, cfg: HostCfg) -> Result<Player, String> {
        let story = Story::new(&json).map_err(|e| e.to_string())?;
        let mut p = Player {
            story,
            json,
            info,
            cfg,
            log: Rc::new(RefCell::new(Vec::new())),
            lines: Rc::new(Cell::new(0)),
            observers: Vec::new(),
            recs: Vec::new(),
            fuel_hit: false,
        };
        p.configure();
        Ok(p)
    }

    fn observer(&mut self, id: usize) -> Rc<RefCell<dyn VariableObserver>> {
        if let Some((_, o)) = self.observers.iter().find(|(i, _)| *i == id) {
            return o.clone();
        }
        let o: Rc<RefCell<dyn VariableObserver>> = Rc::new(RefCell::new(ObsCb {
            id,
            log: self.log.clone(),
        }));
        self.observers.push((id, o.clone()));
        o
    }

    /// apply the host configuration to `self.story` (fresh story)
    fn configure(&mut self) {
        let cfg = self.cfg.clone();
        self.story.verif_set_step_fuel(Some(cfg.fuel.unwrap_or(DEFAULT_FUEL)));
        if let Some(s) = cfg.seed {
            self.story.verif_set_story_seed(s);
        }
        if cfg.handler {
            self.story
                .set_error_handler(Rc::new(RefCell::new(HandlerCb { log: self.log.clone() })));
        }
        self.story.set_allow_external_function_fallbacks(cfg.fallbacks);
        for (name, safe) in cfg.bind.iter() {
            let f = Rc::new(RefCell::new(ExtCb {
                log: self.log.clone(),
                lines: self.lines.clone(),
                label: "ext",
            }));
            let _ = self.story.bind_external_function(name, f, *safe);
        }
        for (id, var) in cfg.observe.iter() {
            let o = self.observer(*id);
            let _ = self.story.observe_variable(var, o);
        }
    }

    pub fn snap(&mut self) -> Snap {
        let can_continue = self.story.can_continue();
        let text = match self.story.get_current_text() {
            Ok(t) => t,
            Err(_) => "<unavailable>".to_string(),
        };
        let tags = self.story.get_current_tags().unwrap_or_else(|_| vec!["<unavailable>".into()]);
        let choices = self
            .story
            .get_current_choices()
            .iter()
            .map(|c| (c.text.clone(), c.tags.clone()))
            .collect();
        Snap {
            can_continue,
            text,
            tags,
            choices,
            errors: self.story.get_current_errors().to_vec(),
            warnings: self.story.get_current_warnings().to_vec(),
        }
    }

    pub fn full_state(&self) -> FullState {
        let mut fs = FullState::default();
        let mut globals = self.info.globals.clone();
        globals.sort();
        for g in globals.iter() {
            fs.vars.push((g.clone(), show_opt(&self.story.get_variable(g))));
        }
        for p in self.info.counted.iter() {
            let n = self.story.get_visit_count_at_path_string(p).unwrap_or(-999);
            fs.visits.push((p.clone(), n));
        }
        fs
    }

    pub fn canonical_save(&self) -> Result<Value, String> {
        let s = self.story.save_state().map_err(|e| e.to_string())?;
        let v: Value = serde_json::from_str(&s).map_err(|e| format!("save is not JSON: {e}"))?;
        Ok(canon_json(&v))
    }

    fn wrap<T>(r: Result<T, StoryError>, f: impl FnOnce(T) -> String) -> Result<String, (String, String)> {
        match r {
            Ok(v) => Ok(f(v)),
            Err(e) => Err((err_kind(&e).to_string(), err_msg(&e))),
        }
    }

    /// Executes one host operation and records the observation.
    pub fn apply(&mut self, op: &Op) -> Rec {
        let pos = self.story.get_current_path();
        let steps_before = self.story.verif_counters().steps;
        let res: Result<String, (String, String)> = match op {
            Op::Cont => {
                let r = self.story.cont();
                if r.is_ok() {
                    self.lines.set(self.lines.get() + 1);
                }
                Self::wrap(r, |s| s)
            }
            Op::ContMax => Self::wrap(self.story.continue_maximally(), |s| s),
            Op::ContAsync(budget) => {
                self.story.verif_set_async_step_budget(Some(*budget));
                let r = self.story.continue_async(1.0e30);
                self.story.verif_set_async_step_budget(None);
                let done = !self.story.verif_async_active();
                if r.is_ok() && done {
                    self.lines.set(self.lines.get() + 1);
                }
                Self::wrap(r, |_| if done { "done".into() } else { "paused".into() })
            }
            Op::Choose(i) => Self::wrap(self.story.choose_choice_index(*i), |_| String::new()),
            Op::ChoosePath(p, reset) => {
                Self::wrap(self.story.choose_path_string(p, *reset, None), |_| String::new())
            }
            Op::SwitchFlow(n) => Self::wrap(self.story.switch_flow(n), |_| String::new()),
            Op::SwitchDefault => {
                self.story.switch_to_default_flow();
                Ok(String::new())
            }
            Op::RemoveFlow(n) => Self::wrap(self.story.remove_flow(n), |_| String::new()),
            Op::SaveLoadFresh => match self.story.save_state() {
                Err(e) => Err((err_kind(&e).to_string(), err_msg(&e))),
                Ok(save) => match Story::new(&self.json) {
                    Err(e) => Err(("new".into(), e.to_string())),
                    Ok(fresh) => {
                        self.story = fresh;
                        // same host objects re-attached to the new instance
                        let seed = self.cfg.seed;
                        self.cfg.seed = None; // seed comes from the save
                        self.configure();
                        self.cfg.seed = seed;
                        Self::wrap(self.story.load_state(&save), |_| format!("{} bytes", save.len()))
                    }
                },
            },
            Op::SaveLoadSame => match self.story.save_state() {
                Err(e) => Err((err_kind(&e).to_string(), err_msg(&e))),
                Ok(save) => Self::wrap(self.story.load_state(&save), |_| format!("{} bytes", save.len())),
            },
            Op::Reset => {
                let r = self.story.reset_state();
                if r.is_ok() {
                    self.lines.set(0);
                }
                if r.is_ok()
                    && let Some(s) = self.cfg.seed
                {
                    self.story.verif_set_story_seed(s);
                }
                Self::wrap(r, |_| String::new())
            }
            Op::SetVar(n, v) => Self::wrap(self.story.set_variable(n, &v.to_vt()), |_| String::new()),
            Op::EvalFn(n, args) => {
                let a: Vec<ValueType> = args.iter().map(|v| v.to_vt()).collect();
                let mut out = String::new();
                let r = self.story.evaluate_function(n, Some(&a), &mut out);
                Self::wrap(r, |v| format!("{} text={:?}", show_opt(&v), out))
            }
            Op::EvalFnVarArg(n, var) => match self.story.get_variable(var) {
                None => Err(("harness".into(), format!("no variable {var}"))),
                Some(v) => {
                    let mut out = String::new();
                    let r = self.story.evaluate_function(n, Some(&vec![ValueType::Int(1), v]), &mut out);
                    Self::wrap(r, |v| format!("{} text={:?}", show_opt(&v), out))
                }
            },
            Op::Observe(id, var) => {
                let o = self.observer(*id);
                Self::wrap(self.story.observe_variable(var, o), |_| String::new())
            }
            Op::Unobserve(id, var) => {
                let o = self.observer(*id);
                Self::wrap(
                    self.story.remove_variable_observer(&o, var.as_deref()),
                    |_| String::new(),
                )
            }
            Op::Bind(n, safe) => {
                let f = Rc::new(RefCell::new(ExtCb {
                    log: self.log.clone(),
                    lines: self.lines.clone(),
                    label: "ext-rebound",
                }));
                Self::wrap(self.story.bind_external_function(n, f, *safe), |_| String::new())
            }
            Op::Unbind(n) => Self::wrap(self.story.unbind_external_function(n), |_| String::new()),
            Op::LoadText(t) => Self::wrap(self.story.load_state(t), |_| String::new()),
            Op::TagsAt(p) => Self::wrap(self.story.tags_for_content_at_path(p), |t| format!("{t:?}")),
            Op::VisitCount(p) => {
                Self::wrap(self.story.get_visit_count_at_path_string(p), |n| n.to_string())
            }
            Op::GlobalTags => Self::wrap(self.story.get_global_tags(), |t| format!("{t:?}")),
        };
        let snap = self.snap();
        let events: Vec<String> = self.log.borrow_mut().drain(..).collect();
        let rec = Rec {
            pos,
            op: op.show(),
            res,
            snap,
            events,
            steps: self.story.verif_counters().steps.saturating_sub(steps_before),
        };
        if rec.is_fuel() {
            self.fuel_hit = true;
        }
        self.recs.push(rec.clone());
        rec
    }
}

pub fn recs_json(recs: &[Rec]) -> Value {
    Value::Array(recs.iter().map(|r| r.to_json()).collect())
}

//! SplitMix64: the only source of randomness in the harness.
#[derive(Clone, Debug)]
pub struct Rng(pub u64);

impl Rng {
    pub fn new(seed: u64) -> Rng {
        Rng(seed ^ 0x9E37_79B9_7F4A_7C15)
    }
    pub fn derive(seed: u64, tag: &str, shard: u64) -> Rng {
        let mut h: u64 = 0xcbf2_9ce4_8422_2325;
        for b in tag.bytes() {
            h ^= b as u64;
            h = h.wrapping_mul(0x1000_0000_01b3);
        }
        let mut r = Rng::new(seed.wrapping_mul(0x2545_F491_4F6C_DD1D) ^ h ^ shard.rotate_left(32));
        r.next();
        r
    }
    #[allow(clippy::should_implement_trait)]
    pub fn next(&mut self) -> u64 {
        self.0 = self.0.wrapping_add(0x9E37_79B9_7F4A_7C15);
        let mut z = self.0;
        z = (z ^ (z >> 30)).wrapping_mul(0xBF58_476D_1CE4_E5B9);
        z = (z ^ (z >> 27)).wrapping_mul(0x94D0_49BB_1331_11EB);
        z ^ (z >> 31)
    }
    pub fn below(&mut self, n: usize) -> usize {
        if n == 0 { 0 } else { (self.next() % n as u64) as usize }
    }
    pub fn range(&mut self, lo: i64, hi: i64) -> i64 {
        lo + (self.next() % ((hi - lo + 1) as u64)) as i64
    }
    pub fn chance(&mut self, num: u32, den: u32) -> bool {
        (self.next() % den as u64) < num as u64
    }
    pub fn pick<'a, T>(&mut self, xs: &'a [T]) -> &'a T {
        &xs[self.below(xs.len())]
    }
    pub fn fork(&mut self) -> Rng {
        Rng::new(self.next())
    }
    pub fn shuffle<T>(&mut self, xs: &mut [T]) {
        for i in (1..xs.len()).rev() {
            let j = self.below(i + 1);
            xs.swap(i, j);
        }
    }
    /// weighted index
    pub fn weighted(&mut self, ws: &[u32]) -> usize {
        let total: u32 = ws.iter().sum();
        if total == 0 {
            return 0;
        }
        let mut x = (self.next() % total as u64) as u32;
        for (i, w) in ws.iter().enumerate() {
            if x < *w {
                return i;
            }
            x -= w;
        }
        ws.len() - 1
    }
}

pub fn fnv(s: &str) -> u64 {
    let mut h: u64 = 0xcbf2_9ce4_8422_2325;
    for b in s.bytes() {
        h ^= b as u64;
        h = h.wrapping_mul(0x1000_0000_01b3);
    }
    h
}

mod corpus;
mod explore;
mod lockstep;
mod player;
mod props;
mod rng;
mod storyinfo;
mod util;

fn main() {
    let args: Vec<String> = std::env::args().skip(1).collect();
    if args.is_empty() {
        eprintln!("usage: inkmon <property|command> [--tier quick|thorough] [--seed N] [--out file] [--replay file]");
        std::process::exit(2);
    }
    let cfg = util::parse_args(&args);
    let code = match cfg.prop.as_str() {
        "C05" => props::c05::run(&cfg),
        other => {
            eprintln!("unknown command {other}");
            2
        }
    };
    std::process::exit(code);
}

mod alloc;
mod corpus;
mod explore;
mod history;
mod jsonpath;
mod jsonstyle;
mod programs;
mod r#gen;
mod lockstep;
mod player;
mod props;
mod refint;
mod rng;
mod storyinfo;
mod tools;
mod util;

fn main() {
    let args: Vec<String> = std::env::args().skip(1).collect();
    if args.is_empty() {
        eprintln!("usage: inkmon <property|command> [--tier quick|thorough] [--seed N] [--out file] [--replay file]");
        std::process::exit(2);
    }
    let cfg = util::parse_args(&args);
    if cfg.prop.starts_with('C') || cfg.prop == "leakrun" {
        util::install_panic_hook();
    }
    let code = match cfg.prop.as_str() {
        "C02" => props::c02::run(&cfg),
        "C03" => props::c03::run(&cfg),
        "C04" => props::c04::run(&cfg),
        "C05" => props::c05::run(&cfg),
        "C06" => props::c06::run(&cfg),
        "C01" => props::c01::run(&cfg),
        "C07" => props::c07::run(&cfg),
        "C08" => props::c08::run(&cfg),
        "C09" => props::c09::run(&cfg),
        "C10" => props::c10::run(&cfg),
        "C11" => props::c11::run(&cfg),
        "C12" => props::c12::run(&cfg),
        "C13" => props::c13::run(&cfg),
        "C14" => props::c14::run(&cfg),
        "C15" => props::c15::run(&cfg),
        "C16" => props::c16::run(&cfg),
        "C17" => props::c17::run(&cfg),
        "C18" => props::c18::run(&cfg),
        "leakrun" => props::c18::leakrun(&cfg),
        "C19" => props::c19::run(&cfg),
        "c20gen" => props::c20::generate_cases(&cfg),
        "play" => tools::play_cmd(&args),
        "gen" => tools::gen_cmd(&cfg),
        "loadjson" => tools::loadjson_cmd(&args),
        "classify" => tools::classify_cmd(&args),
        "minimize" => tools::minimize_cmd(&args, &cfg),
        "c01min" => props::c01::shrink_cmd(&cfg),
        "genprog" => tools::genprog_cmd(&cfg),
        "genstats" => tools::genstats_cmd(&cfg),
        "compile" => tools::compile_cmd(&args),
        other => {
            eprintln!("unknown command {other}");
            2
        }
    };
    std::process::exit(code);
}

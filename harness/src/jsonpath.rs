//! Independent static walk of compiled ink JSON: every reference must resolve exactly to existing content.
//! Written against the format description only (no runtime code).
use crate::storyinfo::{container_name, content, terminator};
use serde_json::Value;
use std::collections::BTreeSet;

#[derive(Debug, Clone)]
pub struct Dangling {
    pub kind: String,
    pub reference: String,
    pub at: String,
    pub why: String,
}

fn child_named<'a>(c: &'a [Value], name: &str) -> Option<&'a Vec<Value>> {
    if let Some(t) = terminator(c)
        && let Some(v) = t.get(name)
        && !name.starts_with('#')
        && let Some(a) = v.as_array()
    {
        return Some(a);
    }
    for el in content(c) {
        if let Some(a) = el.as_array()
            && container_name(a) == Some(name)
        {
            return Some(a);
        }
    }
    None
}

/// Resolves `path` from the object whose ancestor containers are `chain` (root first, own container last).
pub fn resolve(chain: &[&Vec<Value>], path: &str) -> Result<(), String> {
    if path.is_empty() {
        return Err("empty path".into());
    }
    let mut stack: Vec<&Vec<Value>>;
    let comps: Vec<&str>;
    if let Some(rel) = path.strip_prefix('.') {
        stack = chain.to_vec();
        let all: Vec<&str> = rel.split('.').collect();
        // the first component steps from the object to its own container
        if all.is_empty() || all[0] != "^" {
            return Err(format!("relative path does not start with '^': {path}"));
        }
        comps = all[1..].to_vec();
    } else {
        stack = vec![chain[0]];
        comps = path.split('.').collect();
    }
    let n = comps.len();
    for (i, comp) in comps.iter().enumerate() {
        let last = i + 1 == n;
        if *comp == "^" {
            if stack.len() <= 1 {
                return Err(format!("'^' above the root in {path}"));
            }
            stack.pop();
            continue;
        }
        let cur = *stack.last().unwrap();
        if let Ok(idx) = comp.parse::<usize>() {
            let cont = content(cur);
            match cont.get(idx) {
                None => return Err(format!("index {idx} out of range ({} elements) in {path}", cont.len())),
                Some(Value::Array(a)) => stack.push(a),
                Some(_) if last => {}
                Some(_) => return Err(format!("component {idx} of {path} is not a container")),
            }
        } else {
            match child_named(cur, comp) {
                Some(a) => stack.push(a),
                None => return Err(format!("no content named '{comp}' in {path}")),
            }
        }
    }
    Ok(())
}

struct Walk<'a> {
    globals: BTreeSet<String>,
    list_names: BTreeSet<String>,
    externals_declared: &'a BTreeSet<String>,
    out: Vec<Dangling>,
    pub refs: std::collections::BTreeMap<String, u64>,
}

fn collect_temps(c: &[Value], out: &mut BTreeSet<String>) {
    for el in content(c) {
        match el {
            Value::Array(a) => collect_temps(a, out),
            Value::Object(o) => {
                if let Some(n) = o.get("temp=").and_then(|n| n.as_str()) {
                    out.insert(n.to_string());
                }
            }
            _ => {}
        }
    }
    if let Some(t) = terminator(c) {
        for (k, v) in t {
            if !k.starts_with('#')
                && let Some(a) = v.as_array()
            {
                collect_temps(a, out);
            }
        }
    }
}

impl<'a> Walk<'a> {
    fn visit(&mut self, chain: &mut Vec<&'a Vec<Value>>, path: String, temps: &BTreeSet<String>) {
        let cur: &'a Vec<Value> = chain.last().unwrap();
        for (i, el) in content(cur).iter().enumerate() {
            match el {
                Value::Array(a) => {
                    let comp = container_name(a).map(|s| s.to_string()).unwrap_or_else(|| i.to_string());
                    chain.push(a);
                    self.visit(chain, crate::storyinfo::join(&path, &comp), temps);
                    chain.pop();
                }
                Value::Object(o) => self.object(chain, o, &format!("{path}.{i}"), temps),
                _ => {}
            }
        }
        if let Some(t) = terminator(cur) {
            for (k, v) in t {
                if k.starts_with('#') {
                    continue;
                }
                if let Some(a) = v.as_array() {
                    // a top-level knot has its own temporaries
                    let own;
                    let tset = if chain.len() == 1 {
                        let mut s = BTreeSet::new();
                        collect_temps(a, &mut s);
                        own = s;
                        &own
                    } else {
                        temps
                    };
                    chain.push(a);
                    self.visit(chain, crate::storyinfo::join(&path, k), tset);
                    chain.pop();
                }
            }
        }
    }

    fn bump(&mut self, k: &str) {
        *self.refs.entry(k.to_string()).or_insert(0) += 1;
    }

    fn object(&mut self, chain: &[&'a Vec<Value>], o: &serde_json::Map<String, Value>, at: &str, temps: &BTreeSet<String>) {
        let is_var = o.get("var").and_then(|v| v.as_bool()).unwrap_or(false);
        for key in ["->", "f()", "->t->", "*", "CNT?", "^->"] {
            if let Some(p) = o.get(key).and_then(|p| p.as_str()) {
                if is_var && key != "*" && key != "CNT?" && key != "^->" {
                    self.bump("variable-divert");
                    self.check_var(p, "variable-divert", at, temps);
                } else {
                    self.bump(key);
                    if let Err(why) = resolve(chain, p) {
                        self.out.push(Dangling { kind: key.to_string(), reference: p.to_string(), at: at.to_string(), why });
                    }
                }
            }
        }
        if let Some(n) = o.get("x()").and_then(|p| p.as_str()) {
            self.bump("x()");
            if !self.externals_declared.contains(n) {
                self.out.push(Dangling { kind: "x()".into(), reference: n.to_string(), at: at.to_string(), why: "no EXTERNAL declaration in the source".into() });
            }
        }
        if let Some(n) = o.get("VAR?").and_then(|p| p.as_str()) {
            self.bump("VAR?");
            self.check_var(n, "VAR?", at, temps);
        }
        if let Some(n) = o.get("VAR=").and_then(|p| p.as_str())
            && o.get("re").and_then(|v| v.as_bool()).unwrap_or(false)
        {
            self.bump("VAR=(reassign)");
            self.check_var(n, "VAR=", at, temps);
        }
        if let Some(n) = o.get("temp=").and_then(|p| p.as_str())
            && o.get("re").and_then(|v| v.as_bool()).unwrap_or(false)
        {
            self.bump("temp=(reassign)");
            self.check_var(n, "temp=", at, temps);
        }
    }

    fn check_var(&mut self, n: &str, kind: &str, at: &str, temps: &BTreeSet<String>) {
        if self.globals.contains(n) || temps.contains(n) || self.list_names.contains(n) {
            return;
        }
        self.out.push(Dangling { kind: kind.to_string(), reference: n.to_string(), at: at.to_string(), why: "name is not a global, a temporary/parameter of the knot, a list or a list item".into() });
    }
}

/// Returns the dangling references and a histogram of references checked.
pub fn audit(doc: &Value, externals_declared: &BTreeSet<String>) -> Result<(Vec<Dangling>, std::collections::BTreeMap<String, u64>), String> {
    let root = doc.get("root").and_then(|r| r.as_array()).ok_or("no root container")?;
    let mut globals = BTreeSet::new();
    if let Some(t) = terminator(root)
        && let Some(g) = t.get("global decl").and_then(|g| g.as_array())
    {
        fn walk(a: &[Value], out: &mut BTreeSet<String>) {
            for el in a {
                match el {
                    Value::Array(s) => walk(s, out),
                    Value::Object(o) => {
                        if let Some(n) = o.get("VAR=").and_then(|n| n.as_str()) {
                            out.insert(n.to_string());
                        }
                    }
                    _ => {}
                }
            }
        }
        walk(g, &mut globals);
    }
    let mut list_names = BTreeSet::new();
    if let Some(ld) = doc.get("listDefs").and_then(|l| l.as_object()) {
        for (name, items) in ld {
            list_names.insert(name.clone());
            if let Some(items) = items.as_object() {
                for k in items.keys() {
                    list_names.insert(k.clone());
                    list_names.insert(format!("{name}.{k}"));
                }
            }
        }
    }
    let mut root_temps = BTreeSet::new();
    // temporaries declared in the root's own content
    for el in content(root) {
        match el {
            Value::Array(a) => collect_temps(a, &mut root_temps),
            Value::Object(o) => {
                if let Some(n) = o.get("temp=").and_then(|n| n.as_str()) {
                    root_temps.insert(n.to_string());
                }
            }
            _ => {}
        }
    }
    let mut w = Walk { globals, list_names, externals_declared, out: Vec::new(), refs: Default::default() };
    let mut chain = vec![root];
    w.visit(&mut chain, String::new(), &root_temps);
    Ok((w.out, w.refs))
}

//! Independent reader of compiled ink JSON (no runtime code involved): lists
//! globals, counted containers, externals, knots; resolves container paths.
use serde_json::Value;
use std::collections::BTreeMap;

#[derive(Clone, Debug, Default)]
pub struct StoryInfo {
    pub globals: Vec<String>,
    /// paths of containers whose visits are counted (flag bit 1)
    pub counted: Vec<String>,
    /// every container path with (flags, named?)
    pub containers: Vec<(String, i64)>,
    pub knots: Vec<String>,
    pub externals: BTreeMap<String, usize>,
    pub lists: BTreeMap<String, BTreeMap<String, i64>>,
    pub uses_random: bool,
    pub uses_shuffle: bool,
    pub objects: usize,
}

pub fn is_container(v: &Value) -> bool {
    v.is_array()
}

/// terminator object of a container array, if any
pub fn terminator(arr: &[Value]) -> Option<&serde_json::Map<String, Value>> {
    arr.last().and_then(|l| l.as_object())
}

pub fn content(arr: &[Value]) -> &[Value] {
    if arr.is_empty() { arr } else { &arr[..arr.len() - 1] }
}

pub fn container_name(arr: &[Value]) -> Option<&str> {
    terminator(arr).and_then(|t| t.get("#n")).and_then(|n| n.as_str())
}

pub fn container_flags(arr: &[Value]) -> i64 {
    terminator(arr)
        .and_then(|t| t.get("#f"))
        .and_then(|n| n.as_i64())
        .unwrap_or(0)
}

impl StoryInfo {
    pub fn from_json_text(text: &str) -> Option<StoryInfo> {
        let text = text.strip_prefix('\u{feff}').unwrap_or(text);
        let v: Value = serde_json::from_str(text).ok()?;
        Self::from_value(&v)
    }

    pub fn from_value(v: &Value) -> Option<StoryInfo> {
        let root = v.get("root")?.as_array()?;
        let mut info = StoryInfo::default();
        info.walk(root, String::new());
        if let Some(t) = terminator(root) {
            for k in t.keys() {
                if !k.starts_with('#') && k != "global decl" {
                    info.knots.push(k.clone());
                }
            }
            if let Some(g) = t.get("global decl").and_then(|g| g.as_array()) {
                collect_globals(g, &mut info.globals);
            }
        }
        if let Some(ld) = v.get("listDefs").and_then(|l| l.as_object()) {
            for (name, items) in ld {
                let mut m = BTreeMap::new();
                if let Some(items) = items.as_object() {
                    for (k, val) in items {
                        m.insert(k.clone(), val.as_i64().unwrap_or(0));
                    }
                }
                info.lists.insert(name.clone(), m);
            }
        }
        info.knots.sort();
        Some(info)
    }

    fn walk(&mut self, arr: &[Value], path: String) {
        let flags = container_flags(arr);
        self.containers.push((path.clone(), flags));
        if flags & 1 != 0 && !path.is_empty() {
            self.counted.push(path.clone());
        }
        for (i, el) in content(arr).iter().enumerate() {
            self.objects += 1;
            match el {
                Value::Array(sub) => {
                    let comp = match container_name(sub) {
                        Some(n) => n.to_string(),
                        None => i.to_string(),
                    };
                    self.walk(sub, join(&path, &comp));
                }
                Value::Object(o) => {
                    if let Some(name) = o.get("x()").and_then(|n| n.as_str()) {
                        let argc = o.get("exArgs").and_then(|n| n.as_u64()).unwrap_or(0);
                        self.externals.insert(name.to_string(), argc as usize);
                    }
                }
                Value::String(s) => {
                    if s == "rnd" || s == "lrnd" || s == "srnd" {
                        self.uses_random = true;
                    }
                    if s == "seq" {
                        self.uses_shuffle = true;
                    }
                }
                _ => {}
            }
        }
        if let Some(t) = terminator(arr) {
            for (k, v) in t {
                if k.starts_with('#') {
                    continue;
                }
                if let Some(sub) = v.as_array() {
                    self.objects += 1;
                    self.walk(sub, join(&path, k));
                }
            }
        }
    }
}

fn collect_globals(arr: &[Value], out: &mut Vec<String>) {
    for el in arr {
        match el {
            Value::Array(sub) => collect_globals(sub, out),
            Value::Object(o) => {
                if let Some(n) = o.get("VAR=").and_then(|n| n.as_str())
                    && !out.contains(&n.to_string())
                {
                    out.push(n.to_string());
                }
            }
            _ => {}
        }
    }
}

pub fn join(path: &str, comp: &str) -> String {
    if path.is_empty() {
        comp.to_string()
    } else {
        format!("{path}.{comp}")
    }
}

//! Depth-first enumeration of choice paths. Every path is replayed from a fresh story.
use crate::player::{HostCfg, Op, Player, Rec};
use crate::storyinfo::StoryInfo;
use std::rc::Rc;

thread_local! {
    /// the choice path currently being played (read by crash handlers)
    pub static CURRENT_PATH: std::cell::RefCell<Vec<usize>> = const { std::cell::RefCell::new(Vec::new()) };
}

#[derive(Clone, Debug)]
pub struct PathRun {
    pub choices: Vec<usize>,
    pub recs: Vec<Rec>,
    /// number of choices offered at the end (0 = story ended / error)
    pub open: usize,
    pub fuel: bool,
    pub ended_by_depth: bool,
    pub final_state: crate::player::FullState,
}

pub struct ExploreCfg {
    pub max_depth: usize,
    pub max_paths: usize,
    pub max_lines_per_segment: usize,
}

/// Plays `choices` from a fresh story: continue until no more text, choose, repeat.
pub fn play_path(
    json: &Rc<String>,
    info: &Rc<StoryInfo>,
    host: &HostCfg,
    choices: &[usize],
    max_lines: usize,
) -> Result<PathRun, String> {
    CURRENT_PATH.with(|c| *c.borrow_mut() = choices.to_vec());
    let mut p = Player::new(json.clone(), info.clone(), host.clone())?;
    let mut recs = Vec::new();
    let mut idx = 0;
    let mut open;
    loop {
        let mut n = 0;
        while p.story.can_continue() && n < max_lines {
            let r = p.apply(&Op::Cont);
            let failed = r.res.is_err();
            recs.push(r);
            n += 1;
            if failed {
                break;
            }
        }
        open = p.story.get_current_choices().len();
        if p.story.can_continue() || open == 0 || idx >= choices.len() {
            break;
        }
        let c = choices[idx];
        idx += 1;
        if c >= open {
            // the path does not exist in this story: stop here, the shorter log is the divergence
            break;
        }
        recs.push(p.apply(&Op::Choose(c)));
    }
    let stuck = p.story.can_continue();
    Ok(PathRun {
        choices: choices.to_vec(),
        recs,
        open: if stuck { 0 } else { open },
        fuel: p.fuel_hit || stuck,
        ended_by_depth: false,
        final_state: p.full_state(),
    })
}

/// Enumerates all choice paths up to the bounds. Returns (runs, exhaustive).
pub fn explore(
    json: &Rc<String>,
    info: &Rc<StoryInfo>,
    host: &HostCfg,
    cfg: &ExploreCfg,
) -> Result<(Vec<PathRun>, bool), String> {
    let mut out = Vec::new();
    let mut stack: Vec<Vec<usize>> = vec![vec![]];
    let mut exhaustive = true;
    while let Some(path) = stack.pop() {
        if out.len() >= cfg.max_paths {
            exhaustive = false;
            break;
        }
        let mut run = play_path(json, info, host, &path, cfg.max_lines_per_segment)?;
        if run.open > 0 && !run.fuel {
            if path.len() < cfg.max_depth {
                for c in (0..run.open).rev() {
                    let mut p = path.clone();
                    p.push(c);
                    stack.push(p);
                }
                // interior node: not reported as a leaf
                continue;
            } else {
                run.ended_by_depth = true;
                exhaustive = false;
            }
        }
        out.push(run);
    }
    Ok((out, exhaustive))
}

/// For large stories: breadth-first over the first levels while the frontier fits in a quarter of the
/// budget, then deterministic pseudo-random playouts from the frontier nodes down to `max_depth`.
pub fn explore_sampled(
    json: &Rc<String>,
    info: &Rc<StoryInfo>,
    host: &HostCfg,
    cfg: &ExploreCfg,
    rng: &mut crate::rng::Rng,
) -> Result<Vec<PathRun>, String> {
    let mut out = Vec::new();
    let mut frontier: Vec<Vec<usize>> = vec![vec![]];
    let mut depth = 0;
    // breadth-first phase
    loop {
        let mut next = Vec::new();
        for path in frontier.iter() {
            let run = play_path(json, info, host, path, cfg.max_lines_per_segment)?;
            if run.open > 0 && !run.fuel {
                for c in 0..run.open {
                    let mut p = path.clone();
                    p.push(c);
                    next.push(p);
                }
            } else {
                out.push(run);
            }
        }
        depth += 1;
        if next.is_empty() {
            return Ok(out);
        }
        frontier = next;
        if frontier.len() * 4 > cfg.max_paths || depth >= cfg.max_depth {
            break;
        }
    }
    // playouts
    let mut i = 0;
    while out.len() < cfg.max_paths {
        let mut path = frontier[i % frontier.len()].clone();
        i += 1;
        loop {
            let mut run = play_path(json, info, host, &path, cfg.max_lines_per_segment)?;
            if run.open > 0 && !run.fuel && path.len() < cfg.max_depth {
                path.push(rng.below(run.open));
                continue;
            }
            if run.open > 0 {
                run.ended_by_depth = true;
            }
            out.push(run);
            break;
        }
    }
    Ok(out)
}

//! C12 — external functions are called as bound: right arguments, order and timing.
//! Self-describing programs: every call site prints a marker next to the value it got, the host's function is
//! an injective-looking function of (name, arguments), and the Ink fallbacks compute a different known value.
use crate::player::{HostCfg, Op, Player, Rec, ext_result, recs_json};
use crate::programs::{Compiled, from_json};
use crate::rng::{Rng, fnv};
use crate::util::{Cfg, Report, truncate};
use serde_json::{Value, json};

#[derive(Clone, Debug)]
struct Site {
    marker: String,
    name: String,
    args: Vec<i32>,
    /// Some((name, args)) when the first argument is itself an external call
    inner: Option<(String, Vec<i32>)>,
    /// the call is made inside a string literal or choice text
    in_string: bool,
    /// result is shown as `value + 1`
    plus_one: bool,
}

const ARITY: &[(&str, usize)] = &[("e0", 1), ("e1", 2), ("e2", 0), ("e3", 3)];

fn fallback_value(name: &str, args: &[i32]) -> i32 {
    // the Ink fallbacks below: 1000 * k + weighted sum of the arguments
    let k = name[1..].parse::<i32>().unwrap_or(0) + 1;
    1000 * k + args.iter().enumerate().map(|(i, a)| (i as i32 + 1) * a).sum::<i32>()
}

fn host_value(name: &str, args: &[i32]) -> i32 {
    let shown: Vec<String> = args.iter().map(|a| format!("int:{a}")).collect();
    ext_result(name, &shown)
}

fn call_text(rng: &mut Rng, sites: &mut Vec<Site>, marker: &str, in_string: bool, allow_inner: bool) -> String {
    let (name, ar) = *rng.pick(ARITY);
    let mut args: Vec<i32> = (0..ar).map(|_| rng.below(9) as i32 + 1).collect();
    let mut inner = None;
    let mut arg_txt: Vec<String> = args.iter().map(|a| a.to_string()).collect();
    if allow_inner && ar > 0 && rng.chance(1, 4) {
        let (iname, iar) = *rng.pick(ARITY);
        let iargs: Vec<i32> = (0..iar).map(|_| rng.below(9) as i32 + 1).collect();
        arg_txt[0] = format!("{iname}({})", iargs.iter().map(|a| a.to_string()).collect::<Vec<_>>().join(", "));
        args[0] = -1; // filled in per configuration
        inner = Some((iname.to_string(), iargs));
    }
    let plus_one = rng.chance(1, 3);
    sites.push(Site { marker: marker.to_string(), name: name.to_string(), args, inner, in_string, plus_one });
    let call = format!("{name}({})", arg_txt.join(", "));
    if plus_one { format!("{call} + 1") } else { call }
}

struct Prog {
    src: String,
    sites: Vec<Site>,
}

fn program(rng: &mut Rng, with_labelled_only_site: bool) -> Prog {
    let mut sites = Vec::new();
    let mut s = String::new();
    for (n, ar) in ARITY {
        let params: Vec<String> = (0..*ar).map(|i| format!("p{i}")).collect();
        s.push_str(&format!("EXTERNAL {n}({})\n", params.join(", ")));
    }
    if with_labelled_only_site {
        s.push_str("EXTERNAL eonly(p0)\n");
    }
    s.push_str("VAR g = 0\n-> hub\n=== hub ===\nhub line\n");
    let nknots = 2 + rng.below(2);
    let mut m = 0;
    let mut next = |rng: &mut Rng| {
        m += 1;
        let _ = rng;
        format!("c{m}x")
    };
    let mut bodies = String::new();
    for k in 0..nknots {
        s.push_str(&format!("+ [go k{k}] -> k{k}\n"));
        bodies.push_str(&format!("=== k{k} ===\nentering k{k}\n"));
        for _ in 0..2 + rng.below(4) {
            let mk = next(rng);
            match rng.below(6) {
                0 | 1 => {
                    // inline call: the value is printed on the marker line
                    let c = call_text(rng, &mut sites, &mk, false, true);
                    bodies.push_str(&format!("{mk} {{{c}}} end\n"));
                }
                2 => {
                    // statement call right after a line end, result printed on the next line
                    let c = call_text(rng, &mut sites, &mk, false, true);
                    bodies.push_str(&format!("~ g = {c}\n{mk} {{g}} end\n"));
                }
                3 => {
                    // call on a glued continuation
                    let c = call_text(rng, &mut sites, &mk, false, false);
                    bodies.push_str(&format!("glue start <>\n {mk} {{{c}}} end\n"));
                }
                4 => {
                    // call in a condition and in its branch text
                    let c = call_text(rng, &mut sites, &mk, false, false);
                    bodies.push_str(&format!("~ g = {c}\n{{g > 0: {mk} {{g}} end}}\n"));
                }
                _ => {
                    let c = call_text(rng, &mut sites, &mk, false, false);
                    bodies.push_str(&format!("plain before\n{mk} {{{c}}} end\nplain after\n"));
                }
            }
        }
        bodies.push_str("-> hub\n");
    }
    // calls inside strings / choice text, in their own knot
    s.push_str("+ [go kstr] -> kstr\n");
    bodies.push_str("=== kstr ===\nentering kstr\n");
    let mk = next(rng);
    let c = call_text(rng, &mut sites, &mk, true, false);
    if rng.chance(1, 2) {
        bodies.push_str(&format!("~ temp st = \"{{{c}}}\"\n{mk} {{st}} end\n-> hub\n"));
    } else {
        bodies.push_str(&format!("* [{mk} {{{c}}} end]\n    taken\n    -> hub\n+ [back]\n    -> hub\n"));
    }
    // a call inside a string, made by an ink function that has already printed a whole line into that string
    s.push_str("+ [go kstr2] -> kstr2\n");
    bodies.push_str("=== kstr2 ===\nentering kstr\n~ temp s2 = \"{wrapf()}\"\nstrtwo done\n-> hub\n=== function wrapf() ===\nwrap line\n~ return e0(3)\n");
    if with_labelled_only_site {
        s.push_str("+ [go klab] -> klab\n");
        // the only call site of `eonly`: at / below a labelled gather, in the shapes the compiler nests differently
        match rng.below(3) {
            0 => bodies.push_str("=== klab ===\nentering klab\n* [into the weave]\n    inside\n- (lab) labelled {eonly(3)} end\n-> hub\n"),
            1 => bodies.push_str("=== klab ===\nentering klab\n- (lab)\nlabelled {eonly(3)} end\n-> hub\n"),
            _ => bodies.push_str("=== klab ===\nentering klab\n- (lab) labelled start\n~ g = eonly(3)\nlabelled {g} end\n-> hub\n"),
        }
    }
    s.push_str("* [finish] -> END\n");
    s.push_str(&bodies);
    // a function for the host to evaluate: complete lines before, between and after two call sites
    s.push_str("=== function hostfn(a) ===\nhostfn first\nhfa {e0(a)} end\nhostfn middle\n~ temp t = e1(a, 2)\nhfb {t} end\n~ return a + 1\n");
    // Ink fallbacks
    for (n, ar) in ARITY {
        let k = n[1..].parse::<i32>().unwrap_or(0) + 1;
        let params: Vec<String> = (0..*ar).map(|i| format!("p{i}")).collect();
        let sum: Vec<String> = (0..*ar).map(|i| format!("{} * p{i}", i + 1)).collect();
        let expr = if sum.is_empty() { format!("{}", 1000 * k) } else { format!("{} + {}", 1000 * k, sum.join(" + ")) };
        s.push_str(&format!("=== function {n}({}) ===\n~ return {expr}\n", params.join(", ")));
    }
    Prog { src: s, sites }
}

#[derive(Clone, Copy, Debug, PartialEq)]
enum Mode {
    BoundSafe,
    BoundUnsafe,
    Fallbacks,
    UnboundNoFallbacksAllowed,
    MissingOneFallback,
}

fn expected_value(site: &Site, host: bool) -> i32 {
    let f = |n: &str, a: &[i32]| if host { host_value(n, a) } else { fallback_value(n, a) };
    let mut args = site.args.clone();
    if let Some((iname, iargs)) = &site.inner {
        args[0] = f(iname, iargs);
    }
    let v = f(&site.name, &args);
    if site.plus_one { v + 1 } else { v }
}

struct Tally {
    diff: Option<(String, Value)>,
    marker_lines: u64,
    host_calls: u64,
    speculative_calls: u64,
    refused_in_string: u64,
    host_evals: u64,
}

fn run_case(c: &Compiled, prog: &Prog, mode: Mode, rng: &mut Rng, max_ops: usize) -> Result<(Tally, Vec<String>, Vec<Rec>), String> {
    let bind: Vec<(String, bool)> = match mode {
        Mode::BoundSafe => c.info.externals.keys().map(|k| (k.clone(), true)).collect(),
        Mode::BoundUnsafe => c.info.externals.keys().map(|k| (k.clone(), false)).collect(),
        _ => vec![],
    };
    let host = HostCfg { handler: true, fallbacks: mode != Mode::UnboundNoFallbacksAllowed, fuel: Some(20_000), seed: Some(1), bind, observe: vec![] };
    let mut p = Player::new(c.json.clone(), c.info.clone(), host)?;
    let mut t = Tally { diff: None, marker_lines: 0, host_calls: 0, speculative_calls: 0, refused_in_string: 0, host_evals: 0 };
    let mut ops: Vec<String> = Vec::new();
    macro_rules! fail {
        ($sig:expr, $detail:expr) => {{
            t.diff = Some(($sig.to_string(), $detail));
            return Ok((t, ops, p.recs.clone()));
        }};
    }
    if matches!(mode, Mode::UnboundNoFallbacksAllowed | Mode::MissingOneFallback) {
        // the first continue must fail with an error (not a panic) that names a missing function
        let r = p.apply(&Op::Cont);
        ops.push("Cont".into());
        let names: Vec<String> = if mode == Mode::MissingOneFallback { vec!["eonly".to_string()] } else { c.info.externals.keys().cloned().collect() };
        let ok = matches!(&r.res, Err((_, m)) if m.contains("Missing function binding") && names.iter().all(|n| m.contains(n.as_str())));
        if !ok {
            fail!(format!("unbound/first-continue-did-not-fail:{mode:?}"), r.to_json());
        }
        return Ok((t, ops, p.recs.clone()));
    }
    let host_mode = matches!(mode, Mode::BoundSafe | Mode::BoundUnsafe);
    // delivered lines so far (index = number of lines delivered before it), calls logged with that count
    let mut delivered: Vec<String> = Vec::new();
    let mut calls: Vec<(String, Vec<String>, usize)> = Vec::new(); // (name, args as shown, lines at call time)
    let mut in_kstr_pending_error = false;
    for _ in 0..max_ops {
        if rng.chance(1, 5) {
            // the host evaluates an ink function whose body calls externals between complete lines
            let a = rng.below(9) as i32 + 1;
            let r = p.apply(&Op::EvalFn("hostfn".into(), vec![crate::player::Val::Int(a)]));
            ops.push(r.op.clone());
            let f = |n: &str, args: &[i32]| if host_mode { host_value(n, args) } else { fallback_value(n, args) };
            let want_text = format!("hostfn first\nhfa {} end\nhostfn middle\nhfb {} end", f("e0", &[a]), f("e1", &[a, 2]));
            let want_res = format!("int:{} text={:?}", a + 1, format!("{want_text}\n"));
            match &r.res {
                Ok(got) if *got == want_res => {}
                other => fail!(format!("host-evaluated-function/wrong-result:{mode:?}"), json!({"expected": want_res, "returned": format!("{other:?}"), "events": r.events})),
            }
            let ext: Vec<&String> = r.events.iter().filter(|e| e.starts_with("ext ")).collect();
            let want_calls = [format!("ext e0(int:{a})"), format!("ext e1(int:{a},int:2)")];
            let shown: Vec<String> = ext.iter().map(|e| e.rsplit_once(" lines=").map(|x| x.0.to_string()).unwrap_or_else(|| e.to_string())).collect();
            match mode {
                Mode::BoundUnsafe => {
                    if shown != want_calls {
                        fail!("host-evaluated-function/unsafe-external-not-called-exactly-once-in-order", json!({"expected_calls": want_calls, "host_log": shown}));
                    }
                }
                Mode::BoundSafe => {
                    // at least once each, in order (look-ahead may repeat a safe function)
                    let mut it = shown.iter();
                    if !want_calls.iter().all(|w| it.any(|g| g == w)) {
                        fail!("host-evaluated-function/safe-external-not-called", json!({"expected_calls": want_calls, "host_log": shown}));
                    }
                }
                _ => {
                    if !shown.is_empty() {
                        fail!("host-function-called-although-unbound", json!({"calls": shown}));
                    }
                }
            }
            t.host_evals += 1;
            continue;
        }
        if p.story.can_continue() {
            let r = p.apply(&Op::Cont);
            ops.push("Cont".into());
            if p.fuel_hit {
                break;
            }
            for e in r.events.iter() {
                if let Some(rest) = e.strip_prefix("ext ") {
                    // "name(int:1,int:2) lines=3"
                    let (sig, lines) = rest.rsplit_once(" lines=").unwrap_or((rest, "0"));
                    let (name, args) = sig.split_once('(').unwrap_or((sig, ")"));
                    let args: Vec<String> = args.trim_end_matches(')').split(',').filter(|x| !x.is_empty()).map(|x| x.to_string()).collect();
                    calls.push((name.to_string(), args, lines.parse().unwrap_or(0)));
                    t.host_calls += 1;
                }
            }
            let errors: Vec<&String> = r.events.iter().filter(|e| e.starts_with("handler E")).collect();
            if let Ok(text) = &r.res {
                if !text.trim().is_empty() || !errors.is_empty() {
                    delivered.push(text.clone());
                }
                if text.starts_with("entering kstr") {
                    in_kstr_pending_error = mode == Mode::BoundUnsafe;
                }
                if text.starts_with("strtwo") && mode == Mode::BoundUnsafe {
                    fail!("unsafe-call-in-string-after-function-text-was-not-refused", json!({"line": text, "events": r.events}));
                }
            }
            if !errors.is_empty() {
                // the only legitimate error: an unsafe function called from a string / choice text
                let legit = mode == Mode::BoundUnsafe && in_kstr_pending_error && errors.iter().all(|e| e.contains("could not be called") && e.contains("lookaheadSafe"));
                if !legit {
                    fail!(format!("unexpected-runtime-error:{mode:?}"), r.to_json());
                }
                t.refused_in_string += 1;
                in_kstr_pending_error = false;
                let rr = p.apply(&Op::ChoosePath("hub".into(), true));
                ops.push(rr.op.clone());
                continue;
            }
        } else {
            let ch = p.snap().choices;
            if ch.is_empty() {
                break;
            }
            // choice texts are delivered text too (string evaluation)
            for (text, _) in ch.iter() {
                for site in prog.sites.iter().filter(|s| s.in_string) {
                    if text.starts_with(&format!("{} ", site.marker)) {
                        if mode == Mode::BoundUnsafe {
                            fail!("unsafe-call-in-choice-text-was-not-refused", json!({"choice": text}));
                        }
                        let want = format!("{} {} end", site.marker, expected_value(site, host_mode));
                        t.marker_lines += 1;
                        if *text != want {
                            fail!(format!("wrong-value-in-choice-text:{mode:?}"), json!({"choice": text, "expected": want, "site": format!("{site:?}")}));
                        }
                    }
                }
            }
            if in_kstr_pending_error && ch.iter().any(|c| c.0 == "back") {
                // the unsafe call inside the choice text should have been refused with an error before choices appear
                fail!("unsafe-call-in-choice-text-was-not-refused", json!({"choices": ch}));
            }
            let r = p.apply(&Op::Choose(rng.below(ch.len())));
            ops.push(r.op.clone());
        }
    }
    // ---- check the delivered marker lines
    let mut want_calls: Vec<(String, Vec<String>, usize, bool)> = Vec::new(); // expected executed calls: name, args, line index, in_string
    for (idx, line) in delivered.iter().enumerate() {
        for piece in line.split_inclusive('\n') {
            let piece = piece.trim();
            for site in prog.sites.iter() {
                let Some(pos) = piece.find(&format!("{} ", site.marker)) else { continue };
                let shown = &piece[pos..];
                t.marker_lines += 1;
                if site.in_string && mode == Mode::BoundUnsafe {
                    fail!("unsafe-call-in-string-was-not-refused", json!({"line": line, "site": format!("{site:?}")}));
                }
                let want = format!("{} {} end", site.marker, expected_value(site, host_mode));
                if !shown.starts_with(&want) {
                    fail!(format!("wrong-value:{mode:?}"), json!({"line": line, "expected": want, "site": format!("{site:?}"), "calls_logged": calls.iter().rev().take(4).collect::<Vec<_>>()}));
                }
                if host_mode {
                    if let Some((iname, iargs)) = &site.inner {
                        want_calls.push((iname.clone(), iargs.iter().map(|a| format!("int:{a}")).collect(), idx, site.in_string));
                    }
                    let mut args = site.args.clone();
                    if let Some((iname, iargs)) = &site.inner {
                        args[0] = host_value(iname, iargs);
                    }
                    want_calls.push((site.name.clone(), args.iter().map(|a| format!("int:{a}")).collect(), idx, site.in_string));
                }
            }
        }
    }
    match mode {
        Mode::Fallbacks => {
            if !calls.is_empty() {
                fail!("host-function-called-although-unbound", json!({"calls": calls}));
            }
        }
        Mode::BoundUnsafe => {
            // exactly the executed calls, in order, each made when every line before its own had been delivered
            let got: Vec<(String, Vec<String>, usize)> = calls.clone();
            let want: Vec<(String, Vec<String>, usize)> = want_calls.iter().map(|w| (w.0.clone(), w.1.clone(), w.2)).collect();
            // calls whose result line was never delivered (history ended mid-way) may trail at the end
            let n = want.len();
            if got.len() < n || got[..n] != want[..] || got.len() > n + 4 {
                let k = (0..n.min(got.len())).find(|i| got[*i] != want[*i]).unwrap_or(n.min(got.len()));
                let kind = if got.len() < n { "fewer-calls-than-executed" } else if k < n && got[k].0 == want[k].0 && got[k].1 == want[k].1 { "called-before-the-preceding-line-was-delivered-or-late" } else { "call-sequence-differs" };
                fail!(format!("unsafe/{kind}"), json!({"index": k, "host_log": got.iter().skip(k.saturating_sub(1)).take(4).collect::<Vec<_>>(), "executed_calls_from_text": want.iter().skip(k.saturating_sub(1)).take(4).collect::<Vec<_>>()}));
            }
        }
        Mode::BoundSafe => {
            // every executed call happened at least once, not later than its line; extra (speculative) calls allowed
            let mut used = vec![false; calls.len()];
            for w in want_calls.iter() {
                let hit = (0..calls.len()).find(|i| !used[*i] && calls[*i].0 == w.0 && calls[*i].1 == w.1 && calls[*i].2 <= w.2);
                match hit {
                    Some(i) => used[i] = true,
                    None => fail!("safe/executed-call-never-made-in-time", json!({"expected_call": w, "host_log_tail": calls.iter().rev().take(6).collect::<Vec<_>>()})),
                }
            }
            t.speculative_calls += used.iter().filter(|u| !**u).count() as u64;
        }
        _ => {}
    }
    Ok((t, ops, p.recs.clone()))
}

pub fn run(cfg: &Cfg) -> i32 {
    let mut rep = Report::new(
        cfg,
        "exploration",
        "case = (self-describing program, binding configuration, seeded choices). Every external call site (inline, statement right after a line end, on a glued continuation, in a condition, with another external call as first argument, result used in 'x + 1', inside a string literal or choice text, under a labelled gather) prints a unique marker next to the value it received; the host's function returns a value computed from (name, arguments) and logs each call with the number of lines delivered so far; the Ink fallbacks compute a different known value. Configurations: bound look-ahead-safe, bound unsafe, unbound with fallbacks, unbound with fallbacks disallowed, one external without binding and without fallback whose only call site is under a labelled gather. Monitored: every delivered marker line and choice text shows the expected value (so arguments, their order and the use of the return value are right); unsafe: the host log equals, in order, exactly the calls whose results appear in delivered lines, each logged when precisely the lines before its own had been delivered, and a call from a string/choice text is refused with the documented error; safe: every executed call was made at least once and no later than its line (extra speculative calls are counted, not judged); fallbacks: no host call at all; the last two configurations: the first continue fails with an error naming the missing function. Non-trivial = >= 1 marker line checked; distinct by (program, configuration, choices).",
        cfg.pick(5000, 1000000),
    );
    let nprog = cfg.get_u64("programs", cfg.pick(1200, 300000));
    let mut sampled = 0;
    for i in 0..nprog {
        if !cfg.mine(i) {
            continue;
        }
        let mut grng = Rng::derive(cfg.seed, "C12-prog", i);
        for (mi, mode) in [Mode::BoundSafe, Mode::BoundUnsafe, Mode::Fallbacks, Mode::UnboundNoFallbacksAllowed, Mode::MissingOneFallback].into_iter().enumerate() {
            let mut prng = grng.clone();
            let prog = program(&mut prng, mode == Mode::MissingOneFallback);
            let json_text = match std::panic::catch_unwind(|| bladeink_compiler::Compiler::new().compile(&prog.src)) {
                Ok(Ok(j)) => j,
                Ok(Err(e)) => {
                    rep.inconclusive(&format!("planted-program-did-not-compile: {}", truncate(&e.to_string(), 60)));
                    continue;
                }
                Err(_) => {
                    let _ = crate::util::take_last_panic();
                    rep.inconclusive("compiler-panicked");
                    continue;
                }
            };
            let Some(c) = from_json(&format!("ext-{i}"), json_text, Some(prog.src.clone())) else { continue };
            for h in 0..cfg.pick(2, 4) as u64 {
                let mut rng = Rng::derive(cfg.seed, "C12-hist", i * 100 + mi as u64 * 10 + h);
                let r = std::panic::catch_unwind(std::panic::AssertUnwindSafe(|| run_case(&c, &prog, mode, &mut rng, cfg.pick(70, 140))));
                match r {
                    Err(_) => {
                        rep.panic_caught(&format!("externals/{mode:?}"), json!({"source": prog.src, "mode": format!("{mode:?}")}));
                    }
                    Ok(Err(_)) => rep.inconclusive("story-did-not-load"),
                    Ok(Ok((t, ops, recs))) => {
                        let nontrivial = t.marker_lines > 0 || matches!(mode, Mode::UnboundNoFallbacksAllowed | Mode::MissingOneFallback);
                        rep.case(if nontrivial { Some(fnv(&format!("{i}|{mi}|{h}"))) } else { None });
                        rep.count_n(&format!("marker-lines-checked:{mode:?}"), t.marker_lines);
                        rep.count_n(&format!("host-calls:{mode:?}"), t.host_calls);
                        rep.count_n("speculative-calls-in-safe-mode(observed, allowed)", t.speculative_calls);
                        rep.count_n("unsafe-calls-in-strings-refused", t.refused_in_string);
                        rep.count_n("host-evaluated-functions-with-external-calls", t.host_evals);
                        if let Some((sig, detail)) = t.diff {
                            rep.violation(
                                &format!("externals/{sig}"),
                                json!({"source": prog.src, "mode": format!("{mode:?}"), "history": ops, "detail": detail, "log_tail": recs_json(&recs[recs.len().saturating_sub(4)..])}),
                            );
                        } else if sampled < 3 && t.marker_lines > 4 && mode == Mode::BoundUnsafe {
                            sampled += 1;
                            rep.sample(json!({"source": truncate(&prog.src, 1800), "mode": format!("{mode:?}"), "history": ops, "marker_lines_checked": t.marker_lines, "host_calls": t.host_calls}));
                        }
                    }
                }
            }
        }
    }
    rep.finish()
}

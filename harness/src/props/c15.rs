//! C15 — malformed story or save input is rejected with an error, not a crash.
use crate::explore::{ExploreCfg, explore};
use crate::history::{HistCfg, gen_history_on};
use crate::lockstep::{CmpOpts, cmp_recs};
use crate::player::{HostCfg, Op, Player};
use crate::programs::{Compiled, GenOutcome, corpus_stories, generated};
use crate::r#gen::build::GenCfg;
use crate::rng::{Rng, fnv};
use crate::util::{Cfg, Report, take_last_panic, truncate};
use bladeink::story::Story;
use serde_json::{Value, json};

fn host() -> HostCfg {
    HostCfg { handler: false, fallbacks: true, fuel: Some(5_000), seed: Some(1), bind: vec![], observe: vec![] }
}

// ------------------------------------------------------------------ structural faults

fn count_nodes(v: &Value) -> usize {
    1 + match v {
        Value::Array(a) => a.iter().map(count_nodes).sum(),
        Value::Object(o) => o.values().map(count_nodes).sum(),
        _ => 0,
    }
}

const FAULTS: &[&str] = &[
    "delete", "null", "true", "int0", "int-1", "int-huge", "int-2^31", "int--2^31-1", "float0.5", "float1e400", "string", "empty-string",
    "array", "object", "duplicate", "swap-next", "wrap-array", "long-nonascii-array-0", "long-nonascii-array-1", "long-nonascii-array-2", "long-nonascii-string", "long-nonascii-object",
];

/// Applies fault `f` to the `target`-th node (pre-order). Returns false if not applicable.
fn apply_fault(v: &mut Value, target: &mut i64, f: &str) -> bool {
    // children first need parent access for delete/duplicate/swap: handle at the parent level
    match v {
        Value::Array(a) => {
            let mut i = 0;
            while i < a.len() {
                *target -= 1;
                if *target == 0 {
                    return mutate_in_array(a, i, f);
                }
                if apply_fault(&mut a[i], target, f) {
                    return true;
                }
                if *target < 0 {
                    return false;
                }
                i += 1;
            }
            false
        }
        Value::Object(o) => {
            let keys: Vec<String> = o.keys().cloned().collect();
            for (i, k) in keys.iter().enumerate() {
                *target -= 1;
                if *target == 0 {
                    return mutate_in_object(o, k, keys.get(i + 1), f);
                }
                if apply_fault(o.get_mut(k).unwrap(), target, f) {
                    return true;
                }
                if *target < 0 {
                    return false;
                }
            }
            false
        }
        _ => false,
    }
}

fn replacement(f: &str) -> Option<Value> {
    Some(match f {
        "null" => Value::Null,
        "true" => json!(true),
        "int0" => json!(0),
        "int-1" => json!(-1),
        "int-huge" => json!(9_223_372_036_854_775_807i64),
        "int-2^31" => json!(2_147_483_648i64),
        "int--2^31-1" => json!(-2_147_483_649i64),
        "float0.5" => json!(0.5),
        "float1e400" => return None, // only expressible in text form
        "string" => json!("zzz"),
        "empty-string" => json!(""),
        "array" => json!([]),
        "object" => json!({}),
        // long values full of 3-byte characters at every byte alignment: error paths that quote or shorten the
        // offending value must cope with them
        "long-nonascii-array-0" => json!(["^日本語日本語日本語日本語日本語日本語日本語日本語日本語日本語", "\n", null]),
        "long-nonascii-array-1" => json!(["^a日本語日本語日本語日本語日本語日本語日本語日本語日本語日本語", "\n", null]),
        "long-nonascii-array-2" => json!(["^ab日本語日本語日本語日本語日本語日本語日本語日本語日本語日本語", "\n", null]),
        "long-nonascii-string" => json!("ééééééééééééééééééééééééééééééééééééééééééééééééééééééééééééééééééééééé🙂🙂🙂🙂🙂🙂🙂🙂🙂🙂"),
        "long-nonascii-object" => json!({"键键键键键键键键键键键键键键键键键键键键键键键键键键键键": "值值值值值值值值值值值值值值值值值值值值值值值值"}),
        _ => return None,
    })
}

fn mutate_in_array(a: &mut Vec<Value>, i: usize, f: &str) -> bool {
    match f {
        "delete" => {
            a.remove(i);
            true
        }
        "duplicate" => {
            let c = a[i].clone();
            a.insert(i, c);
            true
        }
        "swap-next" => {
            if i + 1 < a.len() {
                a.swap(i, i + 1);
                true
            } else {
                false
            }
        }
        "wrap-array" => {
            let c = a[i].clone();
            a[i] = json!([c]);
            true
        }
        _ => match replacement(f) {
            Some(r) if r != a[i] => {
                a[i] = r;
                true
            }
            _ => false,
        },
    }
}

fn mutate_in_object(o: &mut serde_json::Map<String, Value>, k: &str, next: Option<&String>, f: &str) -> bool {
    match f {
        "delete" => o.remove(k).is_some(),
        "duplicate" => false,
        "swap-next" => match next {
            Some(n) => {
                let a = o.get(k).cloned().unwrap();
                let b = o.get(n).cloned().unwrap();
                o.insert(k.to_string(), b);
                o.insert(n.clone(), a);
                true
            }
            None => false,
        },
        "wrap-array" => {
            let c = o.get(k).cloned().unwrap();
            o.insert(k.to_string(), json!([c]));
            true
        }
        _ => match replacement(f) {
            Some(r) if Some(&r) != o.get(k) => {
                o.insert(k.to_string(), r);
                true
            }
            _ => false,
        },
    }
}

// ------------------------------------------------------------------ the monitored calls

enum Doc {
    Story(String, String),          // name, json text
    Save(String, Compiled, String), // name, program, save text
}


/// every string in the document that is used as a content path: (json pointer, value)
fn path_fields(v: &Value, ptr: &str, out: &mut Vec<(String, String)>) {
    const KEYS: &[&str] = &["cPath", "previousContentObject", "originalChoicePath", "targetPath", "->", "^->", "*", "CNT?", "f()", "->t->", "originalThreadIndex"];
    match v {
        Value::Object(o) => {
            for (k, x) in o.iter() {
                let p2 = format!("{ptr}/{}", k.replace('~', "~0").replace('/', "~1"));
                if let Value::String(s) = x
                    && KEYS.contains(&k.as_str())
                {
                    out.push((p2.clone(), s.clone()));
                }
                path_fields(x, &p2, out);
            }
        }
        Value::Array(a) => {
            for (i, x) in a.iter().enumerate() {
                path_fields(x, &format!("{ptr}/{i}"), out);
            }
        }
        _ => {}
    }
}

/// paths that exist in a story, leaves included (independent walk over the compiled JSON)
fn story_paths(v: &Value, path: &str, out: &mut Vec<String>, cap: usize) {
    if out.len() >= cap {
        return;
    }
    if let Value::Array(a) = v {
        if !path.is_empty() {
            out.push(path.to_string());
        }
        let n = a.len();
        for (i, x) in a.iter().enumerate() {
            if i + 1 == n {
                // named content
                if let Value::Object(o) = x {
                    for (k, y) in o.iter() {
                        if y.is_array() {
                            story_paths(y, &if path.is_empty() { k.clone() } else { format!("{path}.{k}") }, out, cap);
                        }
                    }
                }
                continue;
            }
            let p2 = if path.is_empty() { i.to_string() } else { format!("{path}.{i}") };
            if x.is_array() {
                story_paths(x, &p2, out, cap);
            } else if out.len() < cap {
                out.push(p2); // a leaf: text, command, divert, choice point ...
            }
        }
    }
}

/// Feeds one text to the API under test. Returns "ok" / "err" or records a violation.
fn feed(rep: &mut Report, doc: &Doc, text: &str, fault: &str, loader: &str, check_recovery: bool) -> &'static str {
    let repo = rep.cfg.repo_dir.clone();
    match doc {
        Doc::Story(name, _) => {
            let r = std::panic::catch_unwind(|| Story::new(text).map(|_| ()));
            match r {
                Ok(Ok(())) => "ok",
                Ok(Err(_)) => "err",
                Err(_) => {
                    let (loc, msg) = take_last_panic().unwrap_or_default();
                    if crate::util::panic_in_repo(&loc, &repo) {
                        // function level (the same function has several unwraps; which one fires depends on the document)
                        let sig = format!("story-load/{loader}/{}", crate::util::panic_signature(&loc, &msg, &repo).split('#').next().unwrap_or(""));
                        rep.violation(&sig, json!({"document": name, "fault": fault, "loader": loader, "panic_location": loc, "panic_message": msg, "text": truncate(text, 3000)}));
                    } else {
                        rep.harness_error(&format!("harness panic at {loc}: {msg}"));
                    }
                    "panic"
                }
            }
        }
        Doc::Save(name, c, _) => {
            let r = std::panic::catch_unwind(std::panic::AssertUnwindSafe(|| -> Result<(bool, Option<String>), String> {
                let mut p = Player::new(c.json.clone(), c.info.clone(), host())?;
                let res = p.story.load_state(text);
                let ok = res.is_ok();
                let mut recovery = None;
                if !ok && check_recovery {
                    // after a failed load: reset, then the story must play like a fresh one
                    p.apply(&Op::Reset);
                    let mut fresh = Player::new(c.json.clone(), c.info.clone(), host())?;
                    let mut rng = Rng::new(7);
                    let h = gen_history_on(&mut fresh, c, &mut rng, &HistCfg { max_ops: 12, ..Default::default() });
                    for op in h.ops.iter() {
                        p.apply(op);
                    }
                    let tail = &p.recs[p.recs.len() - h.ops.len()..];
                    if let Some(d) = cmp_recs(&h.recs, tail, &CmpOpts::default()) {
                        recovery = Some(d.to_json().to_string());
                    }
                }
                Ok((ok, recovery))
            }));
            match r {
                Ok(Ok((ok, recovery))) => {
                    if let Some(d) = recovery {
                        rep.violation(
                            "save-load/no-recovery-after-failed-load",
                            json!({"document": name, "fault": fault, "divergence_from_fresh_story_after_reset": d, "text": truncate(text, 3000)}),
                        );
                    }
                    if ok { "ok" } else { "err" }
                }
                Ok(Err(e)) => {
                    rep.harness_error(&e);
                    "err"
                }
                Err(_) => {
                    let (loc, msg) = take_last_panic().unwrap_or_default();
                    if crate::util::panic_in_repo(&loc, &repo) {
                        let sig = format!("save-load/{}", crate::util::panic_signature(&loc, &msg, &repo).split('#').next().unwrap_or(""));
                        rep.violation(&sig, json!({"document": name, "fault": fault, "panic_location": loc, "panic_message": msg, "text": truncate(text, 3000)}));
                    } else {
                        rep.harness_error(&format!("harness panic at {loc}: {msg}"));
                    }
                    "panic"
                }
            }
        }
    }
}

fn base_documents(cfg: &Cfg, rep: &mut Report) -> Vec<Doc> {
    let mut docs = Vec::new();
    let mut stories: Vec<Compiled> = Vec::new();
    // small generated programs
    let mut gc = GenCfg::rich();
    gc.flow_knots = (1, 2);
    gc.run_len = (1, 2);
    gc.externals = false;
    for i in 0..cfg.pick(4, 40) {
        if let GenOutcome::Ok(c) = generated(cfg.seed, "C15", i, &gc) {
            stories.push(c);
        }
    }
    // corpus (reference-compiled): a seeded sample of the small ones
    let corpus = corpus_stories(&cfg.corpus_dir(), true, false, 400);
    let mut idx: Vec<usize> = (0..corpus.len()).collect();
    Rng::derive(cfg.seed, "C15-corpus", 0).shuffle(&mut idx);
    for i in idx.into_iter().take(cfg.pick(10, 120)) {
        stories.push(corpus[i].clone());
    }
    // every other story gets non-ASCII / control / quote-heavy text injected into its strings, so that damaged
    // documents (and the error paths that quote them) also carry multi-byte characters
    for (k, c) in stories.iter_mut().enumerate() {
        if k % 2 == 1 {
            continue;
        }
        if let Ok(mut v) = serde_json::from_str::<Value>(&c.json) {
            let mut n = 0;
            let mut trng = Rng::derive(cfg.seed, "C15-text", k as u64);
            crate::jsonstyle::inject_text(&mut v, &mut trng, &mut n);
            if n > 0
                && let Some(h) = crate::programs::from_json(&format!("{}+hostile-text", c.name), v.to_string(), c.src.clone())
            {
                *c = h;
            }
        }
    }
    for c in stories.iter() {
        docs.push(Doc::Story(c.name.clone(), c.json.as_ref().clone()));
    }
    // saves taken at explored points
    let hcfgs = [
        HistCfg { max_ops: 6, ..Default::default() },
        HistCfg { max_ops: 14, flows: true, ..Default::default() },
        HistCfg { max_ops: 22, flows: false, set_vars: true, ..Default::default() },
    ];
    for (si, c) in stories.iter().enumerate() {
        for (hi, h) in hcfgs.iter().enumerate() {
            let mut rng = Rng::derive(cfg.seed, "C15-save", (si * 10 + hi) as u64);
            let Ok(mut p) = Player::new(c.json.clone(), c.info.clone(), host()) else { continue };
            let _ = gen_history_on(&mut p, c, &mut rng, h);
            if p.story.has_error() {
                continue;
            }
            if let Ok(s) = p.story.save_state() {
                docs.push(Doc::Save(format!("save#{}@{}", c.name, hi), c.clone(), s));
            }
        }
    }
    let _ = (ExploreCfg { max_depth: 0, max_paths: 0, max_lines_per_segment: 0 }, explore as fn(_, _, _, _) -> _);
    rep.count_n("base-documents", docs.len() as u64);
    docs
}

pub fn run(cfg: &Cfg) -> i32 {
    let loader = if cfg!(feature = "stream") { "stream" } else { "default" };
    let mut rep = Report::new(
        cfg,
        "fault_enumeration",
        "case = (base document, fault): base documents are compiled stories (generated + reference corpus) and saves taken at seeded points (single flow, several flows, after host assignments). Faults: EVERY single-node structural fault from {delete, retype to null/true/0/-1/2^63-1/2^31/-2^31-1/0.5/string/empty string/array/object, duplicate, swap with next sibling, wrap in array} for documents up to the node cap (sampled above it), truncation at EVERY byte for documents up to the byte cap, text-level faults (1e400, unknown tokens, raw control characters, BOM, trailing garbage), nesting bombs and random bytes. Each text is given to Story::new (story documents, under the loader this build selects) or load_state (saves). Monitored: no panic (caught, attributed to a repository source location), no process death (journal), Ok or Err; after a failed load_state, reset + replay must equal a fresh story. Non-trivial = the fault changed the document; distinct by (document, fault, node).",
        cfg.pick(3000, 400_000),
    );
    rep.assumptions.push(format!("this run used the '{loader}' story loader; saves are always read by the serde-based reader"));
    let docs = base_documents(cfg, &mut rep);
    let node_cap = cfg.pick(250, 1500);
    let byte_cap = cfg.pick(1500, 6000);
    let only_stories = cfg.get("only-stories").is_some();
    let mut outcomes: std::collections::BTreeMap<String, u64> = Default::default();
    let mut sampled = 0;
    let mut exhaustive_docs = 0;
    for (di, doc) in docs.iter().enumerate() {
        if !cfg.mine(di as u64) {
            continue;
        }
        let (name, text) = match doc {
            Doc::Story(n, t) => (n.clone(), t.clone()),
            Doc::Save(n, _, t) => (n.clone(), t.clone()),
        };
        if only_stories && matches!(doc, Doc::Save(..)) {
            continue;
        }
        let kind = if matches!(doc, Doc::Story(..)) { "story" } else { "save" };
        rep.journal_start(&format!("{name}#structural"));
        let Ok(base) = serde_json::from_str::<Value>(&text) else { continue };
        let n = count_nodes(&base);
        let mut rng = Rng::derive(cfg.seed, "C15-faults", di as u64);
        let targets: Vec<usize> = if n <= node_cap {
            exhaustive_docs += 1;
            (1..n).collect()
        } else {
            (0..node_cap).map(|_| 1 + rng.below(n - 1)).collect()
        };
        for t in targets {
            for f in FAULTS {
                let mut v = base.clone();
                let mut tt = t as i64;
                if !apply_fault(&mut v, &mut tt, f) {
                    continue;
                }
                let mutated = v.to_string();
                let check_recovery = rng.chance(1, 12);
                let o = feed(&mut rep, doc, &mutated, &format!("{f}@node{t}"), loader, check_recovery);
                rep.case(Some(fnv(&format!("{name}|{f}|{t}"))));
                *outcomes.entry(format!("{kind}/{f}/{o}")).or_insert(0) += 1;
                if sampled < 4 && o == "err" && t > 10 {
                    sampled += 1;
                    rep.sample(json!({"document": name, "fault": format!("{f}@node{t}"), "outcome": o, "mutated_text": truncate(&mutated, 400)}));
                }
            }
        }
        rep.journal_end(&format!("{name}#structural"));
        // truncation at every byte
        rep.journal_start(&format!("{name}#truncation"));
        let bytes = text.as_bytes();
        let cuts: Vec<usize> = if bytes.len() <= byte_cap { (0..bytes.len()).collect() } else { (0..byte_cap).map(|_| rng.below(bytes.len())).collect() };
        for cut in cuts {
            let Ok(t) = std::str::from_utf8(&bytes[..cut]) else { continue };
            let o = feed(&mut rep, doc, t, &format!("truncate@{cut}"), loader, cut % 97 == 0);
            rep.case(Some(fnv(&format!("{name}|trunc|{cut}"))));
            *outcomes.entry(format!("{kind}/truncate/{o}")).or_insert(0) += 1;
        }
        rep.journal_end(&format!("{name}#truncation"));
        // text-level faults
        rep.journal_start(&format!("{name}#text"));
        let mut texts: Vec<(String, String)> = vec![
            ("bom".into(), format!("\u{feff}{text}")),
            ("trailing-garbage".into(), format!("{text} ]}}x")),
            ("leading-space".into(), format!(" \n\t{text}")),
            ("empty".into(), String::new()),
            ("just-null".into(), "null".into()),
            ("just-array".into(), "[]".into()),
            ("just-number".into(), "12".into()),
            ("empty-object".into(), "{}".into()),
        ];
        // replace the first few numbers by 1e400 / NaN / unknown tokens
        for (label, tok) in [("1e400", "1e400"), ("nan", "NaN"), ("unknown-token", "undefined"), ("minus", "-"), ("hex", "0x10"), ("huge-int", "99999999999999999999999")] {
            let mut count = 0;
            let mut out = String::new();
            let mut chars = text.char_indices().peekable();
            let mut in_str = false;
            let mut prev = ' ';
            while let Some((_, ch)) = chars.next() {
                if ch == '"' && prev != '\\' {
                    in_str = !in_str;
                }
                if !in_str && ch.is_ascii_digit() && !prev.is_ascii_digit() && prev != '.' && prev != '-' && count < 3 && rng.chance(1, 6) {
                    count += 1;
                    out.push_str(tok);
                    while let Some((_, c2)) = chars.peek() {
                        if c2.is_ascii_digit() || *c2 == '.' {
                            chars.next();
                        } else {
                            break;
                        }
                    }
                } else {
                    out.push(ch);
                }
                prev = ch;
            }
            if count > 0 {
                texts.push((label.to_string(), out));
            }
        }
        for _ in 0..cfg.pick(20, 200) {
            // byte flips / random bytes
            let mut b = bytes.to_vec();
            for _ in 0..1 + rng.below(3) {
                if b.is_empty() {
                    break;
                }
                let i = rng.below(b.len());
                b[i] = *rng.pick(&[b'{', b'}', b'[', b']', b'"', b',', b':', b'\\', b'0', b'-', b'e', b'n', b't', b' ', 0x01, b'\n']);
            }
            if let Ok(s) = String::from_utf8(b) {
                texts.push(("byte-flip".into(), s));
            }
        }
        for (label, t) in texts {
            let o = feed(&mut rep, doc, &t, &label, loader, false);
            rep.case(Some(fnv(&format!("{name}|{label}|{}", fnv(&t)))));
            *outcomes.entry(format!("{kind}/{label}/{o}")).or_insert(0) += 1;
        }
        // path swaps: every field that holds a content path gets other paths that exist (containers AND leaves), the
        // path of a sibling field, a child index appended, its parent - a well-formed document whose references are wrong
        if let Ok(parsed) = serde_json::from_str::<Value>(&text) {
            let mut fields = Vec::new();
            path_fields(&parsed, "", &mut fields);
            let story_json = match doc {
                Doc::Story(_, t) => serde_json::from_str::<Value>(t).ok(),
                Doc::Save(_, c, _) => serde_json::from_str::<Value>(&c.json).ok(),
            };
            let mut pool: Vec<String> = Vec::new();
            if let Some(sj) = story_json.as_ref().and_then(|j| j.get("root")) {
                story_paths(sj, "", &mut pool, 400);
            }
            let field_values: Vec<String> = fields.iter().map(|f| f.1.clone()).collect();
            let nfields = fields.len();
            for (fi, (ptr, val)) in fields.into_iter().enumerate() {
                if nfields > cfg.pick(12usize, 60) && !rng.chance(cfg.pick(12u32, 60), nfields as u32) {
                    continue;
                }
                let mut cands: Vec<String> = vec![format!("{val}.0"), format!("{val}.0.0"), val.rsplit_once('.').map(|x| x.0.to_string()).unwrap_or_default(), format!("{val}.^"), ".^.^.^.^.^.^".into(), "0".into()];
                for _ in 0..cfg.pick(4, 10) {
                    if !pool.is_empty() {
                        cands.push(rng.pick(&pool).clone());
                    }
                    if !field_values.is_empty() {
                        cands.push(rng.pick(&field_values).clone());
                    }
                }
                for cand in cands {
                    if cand == val {
                        continue;
                    }
                    let mut m = parsed.clone();
                    if let Some(slot) = m.pointer_mut(&ptr) {
                        *slot = Value::String(cand.clone());
                    } else {
                        continue;
                    }
                    let t = m.to_string();
                    let o = feed(&mut rep, doc, &t, "path-swap", loader, matches!(doc, Doc::Save(..)));
                    rep.case(Some(fnv(&format!("{name}|path-swap|{fi}|{cand}"))));
                    *outcomes.entry(format!("{kind}/path-swap/{o}")).or_insert(0) += 1;
                }
            }
        }
        rep.journal_end(&format!("{name}#text"));
    }
    // nesting bombs: each in its own journal entry (a stack overflow kills the worker)
    if cfg.mine(docs.len() as u64 + 1) {
        if let Some(first_story) = docs.iter().find(|d| matches!(d, Doc::Story(..))) {
            for (label, open, close, depth) in [("array-bomb", "[", "]", 200_000usize), ("object-bomb", "{\"a\":", "}", 100_000), ("root-array-bomb", "[", "]", 200_000), ("root-named-content-bomb", "{\"a\":[", "]}", 20_000),
                // objects directly inside objects, never passing through an array
                ("root-object-bomb", "{\"a\":", "}", 100_000), ("root-first-item-object-bomb", "{\"a\":", "}", 50_000), ("root-named-object-bomb", "{\"a\":", "}", 50_000)] {
                let case = format!("nesting#{label}");
                rep.journal_start(&case);
                let body = format!("{}{}{}", open.repeat(depth), if label == "object-bomb" { "1" } else { "" }, close.repeat(depth));
                let t = if label == "root-array-bomb" {
                    format!("{{\"inkVersion\":21,\"root\":{body},\"listDefs\":{{}}}}")
                } else if label == "root-object-bomb" {
                    format!("{{\"inkVersion\":21,\"root\":{}1{},\"listDefs\":{{}}}}", open.repeat(depth), close.repeat(depth))
                } else if label == "root-first-item-object-bomb" {
                    format!("{{\"inkVersion\":21,\"root\":[{}1{},\"done\",null],\"listDefs\":{{}}}}", open.repeat(depth), close.repeat(depth))
                } else if label == "root-named-object-bomb" {
                    format!("{{\"inkVersion\":21,\"root\":[\"done\",{{\"k\":{}1{}}}],\"listDefs\":{{}}}}", open.repeat(depth), close.repeat(depth))
                } else if label == "root-named-content-bomb" {
                    format!("{{\"inkVersion\":21,\"root\":[{}null{},null],\"listDefs\":{{}}}}", open.repeat(depth), close.repeat(depth))
                } else {
                    body
                };
                let o = feed(&mut rep, first_story, &t, label, loader, false);
                rep.case(Some(fnv(&case)));
                *outcomes.entry(format!("story/{label}/{o}")).or_insert(0) += 1;
                rep.journal_end(&case);
            }
        }
        if let Some(first_save) = docs.iter().find(|d| matches!(d, Doc::Save(..))) {
            for (label, depth) in [("save-array-bomb", 200_000usize), ("save-evalstack-bomb", 3_000), ("save-variables-object-bomb", 50_000), ("save-evalstack-object-bomb", 50_000)] {
                let case = format!("nesting#{label}");
                rep.journal_start(&case);
                let body = format!("{}{}", "[".repeat(depth), "]".repeat(depth));
                let obj_body = format!("{}1{}", "{\"a\":".repeat(depth), "}".repeat(depth));
                let t = if label == "save-variables-object-bomb" {
                    if let Doc::Save(_, _, s) = first_save { s.replacen("\"variablesState\":{", &format!("\"variablesState\":{{\"bomb\":{obj_body},"), 1) } else { obj_body }
                } else if label == "save-evalstack-object-bomb" {
                    if let Doc::Save(_, _, s) = first_save { s.replacen("\"evalStack\":[", &format!("\"evalStack\":[{obj_body},"), 1) } else { obj_body }
                } else if label == "save-evalstack-bomb" {
                    if let Doc::Save(_, _, s) = first_save { s.replacen("\"evalStack\":[", &format!("\"evalStack\":[{body},"), 1) } else { body }
                } else {
                    body
                };
                let o = feed(&mut rep, first_save, &t, label, loader, false);
                rep.case(Some(fnv(&case)));
                *outcomes.entry(format!("save/{label}/{o}")).or_insert(0) += 1;
                rep.journal_end(&case);
            }
        }
    }
    for (k, v) in outcomes {
        rep.count_n(&k, v);
    }
    rep.extra.insert("documents_enumerated_exhaustively".into(), json!(exhaustive_docs));
    rep.extra.insert("loader".into(), json!(loader));
    rep.exhaustive = Some(false);
    rep.finish()
}

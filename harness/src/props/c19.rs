//! C19 — every piece of story content is addressable by its own path.
use crate::history::{HistCfg, gen_history_on};
use crate::player::{HostCfg, Op, Player};
use crate::programs::{Compiled, GenOutcome, corpus_stories, from_json, generated};
use crate::r#gen::build::GenCfg;
use crate::rng::{Rng, fnv};
use crate::util::{Cfg, Report, truncate};
use bladeink::story::Story;
use bladeink::verif::{path_eq_hash, path_parsed_vs_rebuilt, path_roundtrip};
use serde_json::{Value, json};

fn audit_story(rep: &mut Report, c: &Compiled, rng: &mut Rng, pairs_per_object: usize) -> Result<(), String> {
    let story = Story::new(&c.json).map_err(|e| e.to_string())?;
    let audit = story.verif_audit();
    let n = audit.entries.len();
    rep.count_n("objects", n as u64);
    let wit = |what: &str, detail: Value| json!({"story": c.name, "what": what, "detail": detail, "source": c.src.as_ref().map(|s| truncate(s, 2000))});
    // children index for neighbourhoods
    let mut children: Vec<Vec<usize>> = vec![Vec::new(); n];
    for e in audit.entries.iter() {
        if let Some(p) = e.parent {
            children[p].push(e.id);
        }
    }
    for e in audit.entries.iter() {
        rep.case(Some(fnv(&format!("{}|{}", c.name, e.path))));
        // 1. the reported path resolves back to this very object, exactly
        let (rid, approx) = audit.resolve(&e.path);
        if approx || rid != Some(e.id) {
            // two different objects may legitimately print the same path only if one is the other: never
            rep.violation(
                &format!("path/resolve-{}", if approx { "approximate" } else { "other-object" }),
                wit("resolve(path(o)) is not o", json!({"object": e.id, "kind": e.kind, "path": e.path, "text": truncate(&e.text, 120), "resolved_to": rid, "approximate": approx})),
            );
            continue;
        }
        // 2. text -> path -> text
        let rt = path_roundtrip(&e.path);
        if rt.printed != e.path || rt.is_relative {
            rep.violation("path/text-roundtrip", wit("parsing the printed path and printing it again changes it", json!({"path": e.path, "printed": rt.printed, "is_relative": rt.is_relative})));
            continue;
        }
        // 3. equal paths hash equally (parsed vs rebuilt from components), own path object agrees
        let (eq, heq, peq) = path_parsed_vs_rebuilt(&e.path);
        let own = audit.own_path(e.id);
        if !eq || !heq || !peq || own.printed != e.path || own.hash != rt.hash {
            rep.violation("path/eq-hash", wit("equal paths differ in ==, hash or text", json!({"path": e.path, "eq": eq, "hash_eq": heq, "print_eq": peq, "own_printed": own.printed, "own_hash_equals_parsed_hash": own.hash == rt.hash})));
            continue;
        }
        // 4. different paths are different: parent / first child / next sibling
        let mut others: Vec<usize> = Vec::new();
        if let Some(p) = e.parent {
            others.push(p);
            if let Some(pos) = children[p].iter().position(|x| *x == e.id)
                && let Some(s) = children[p].get(pos + 1)
            {
                others.push(*s);
            }
        }
        if let Some(ch) = children[e.id].first() {
            others.push(*ch);
        }
        for o in others {
            let op = &audit.entries[o].path;
            if *op == e.path {
                continue; // (the root and nothing else has the empty path; equal text means the same object was checked above)
            }
            let (eq2, _) = path_eq_hash(&e.path, op);
            rep.count("distinct-path-pairs-compared");
            if eq2 {
                rep.violation("path/distinct-paths-compare-equal", wit("two different paths are ==", json!({"a": e.path, "b": op})));
            }
        }
        // 5. relative paths to nearby objects and to random objects
        let mut targets: Vec<usize> = Vec::new();
        if let Some(p) = e.parent {
            targets.push(p);
            for s in children[p].iter().take(4) {
                targets.push(*s);
            }
            if let Some(gp) = audit.entries[p].parent {
                targets.push(gp);
                for s in children[gp].iter().take(3) {
                    targets.push(*s);
                    if let Some(x) = children[*s].first() {
                        targets.push(*x);
                    }
                }
            }
        }
        for ch in children[e.id].iter().take(2) {
            targets.push(*ch);
        }
        for _ in 0..pairs_per_object {
            targets.push(rng.below(n));
        }
        for t in targets {
            if t == e.id {
                continue;
            }
            rep.count("relative-paths-checked");
            let (rel, is_rel, rid, approx) = audit.relative(e.id, t);
            if approx || rid != Some(t) {
                rep.violation("path/relative-resolve", wit("resolve_relative(o1, relative(o1, o2)) is not o2", json!({"from": e.path, "to": audit.entries[t].path, "relative": rel, "is_relative": is_rel, "resolved_to": rid.map(|i| audit.entries[i].path.clone()), "approximate": approx})));
                break;
            }
            let rt = path_roundtrip(&rel);
            if rt.printed != rel || rt.is_relative != is_rel {
                rep.violation("path/relative-text-roundtrip", wit("a relative path does not survive text -> path -> text", json!({"relative": rel, "is_relative": is_rel, "reparsed": rt.printed, "reparsed_is_relative": rt.is_relative})));
                break;
            }
            let (rid2, approx2) = audit.resolve_from(e.id, &rel);
            if approx2 || rid2 != Some(t) {
                rep.violation("path/relative-reparsed-resolve", wit("the re-parsed relative path resolves elsewhere", json!({"from": e.path, "to": audit.entries[t].path, "relative": rel, "resolved_to": rid2})));
                break;
            }
            let compact = audit.compact(e.id, t);
            let (rid3, approx3) = if compact.starts_with('.') { audit.resolve_from(e.id, &compact) } else { audit.resolve(&compact) };
            if approx3 || rid3 != Some(t) {
                rep.violation("path/compact-resolve", wit("the compact form written for a reference does not resolve to its target", json!({"from": e.path, "to": audit.entries[t].path, "compact": compact, "resolved_to": rid3})));
                break;
            }
        }
    }
    Ok(())
}

/// Positions the engine writes: current path, save pointers, choice paths.
fn audit_positions(rep: &mut Report, c: &Compiled, rng: &mut Rng) -> Result<(), String> {
    let host = HostCfg { handler: true, fallbacks: true, fuel: Some(20_000), seed: Some(1), bind: c.info.externals.keys().map(|k| (k.clone(), true)).collect(), observe: vec![] };
    let mut p = Player::new(c.json.clone(), c.info.clone(), host)?;
    let wit = |what: &str, detail: Value| json!({"story": c.name, "what": what, "detail": detail, "source": c.src.as_ref().map(|s| truncate(s, 2000))});
    for round in 0..3 {
        let h = HistCfg { max_ops: 4 + rng.below(10), flows: round == 1, ..Default::default() };
        let _ = gen_history_on(&mut p, c, rng, &h);
        if p.story.has_error() || p.fuel_hit {
            break;
        }
        let audit = p.story.verif_audit();
        let cur = p.story.get_current_path();
        let Ok(save) = p.story.save_state() else { break };
        let Ok(sv) = serde_json::from_str::<Value>(&save) else { break };
        rep.case(Some(fnv(&format!("{}|pos|{}|{}", c.name, round, save.len()))));
        // current flow's top call-stack element = the current position
        let flow_name = sv["currentFlowName"].as_str().unwrap_or("DEFAULT_FLOW").to_string();
        let flow = &sv["flows"][&flow_name];
        if let Some(threads) = flow["callstack"]["threads"].as_array()
            && let Some(el) = threads.last().and_then(|t| t["callstack"].as_array()).and_then(|c| c.last())
        {
            if let (Some(cpath), Some(idx)) = (el["cPath"].as_str(), el["idx"].as_i64()) {
                let expected = if cpath.is_empty() { idx.to_string() } else { format!("{cpath}.{idx}") };
                rep.count("current-path-vs-save-pointer");
                if let Some(cur) = &cur
                    && *cur != expected
                {
                    rep.violation("position/current-path-differs-from-saved-pointer", wit("get_current_path() and the (cPath, idx) written into the save denote different text", json!({"get_current_path": cur, "save_cPath_idx": expected})));
                }
                let rt = path_roundtrip(&expected);
                if rt.printed != expected {
                    rep.violation("position/pointer-text-roundtrip", wit("container path + index does not survive text -> path -> text", json!({"expected": expected, "printed": rt.printed})));
                }
            }
        }
        // every pointer in the save resolves exactly
        let mut stack = vec![&sv];
        while let Some(v) = stack.pop() {
            match v {
                Value::Object(o) => {
                    if let (Some(cp), Some(idx)) = (o.get("cPath").and_then(|x| x.as_str()), o.get("idx").and_then(|x| x.as_i64())) {
                        rep.count("save-pointers-resolved");
                        let (rid, approx) = audit.resolve(cp);
                        let ok = !approx && rid.map(|i| audit.entries[i].kind == "Container").unwrap_or(false);
                        let in_range = rid.map(|i| {
                            let len = audit.entries.iter().filter(|e| e.parent == Some(i) && !e.named_only).count() as i64;
                            idx >= -1 && idx <= len
                        }).unwrap_or(false);
                        if !ok || !in_range {
                            rep.violation("position/save-pointer-does-not-resolve", wit("a (cPath, idx) in the save does not denote existing content", json!({"cPath": cp, "idx": idx, "approximate": approx})));
                        }
                    }
                    for key in ["previousContentObject", "currentDivertTarget", "originalChoicePath", "targetPath"] {
                        if let Some(ps) = o.get(key).and_then(|x| x.as_str()) {
                            rep.count("save-paths-resolved");
                            let (rid, approx) = audit.resolve(ps);
                            if approx || rid.is_none() {
                                rep.violation(&format!("position/save-{key}-does-not-resolve"), wit("a path written into the save does not resolve exactly", json!({"key": key, "path": ps})));
                            }
                        }
                    }
                    for x in o.values() {
                        stack.push(x);
                    }
                }
                Value::Array(a) => {
                    for x in a {
                        stack.push(x);
                    }
                }
                _ => {}
            }
        }
        if p.story.get_current_choices().is_empty() && !p.story.can_continue() {
            p.apply(&Op::Reset);
        }
    }
    Ok(())
}


/// Positions directly in the root container (container path = the empty path): before the first continue, in a brand
/// new flow, and after a host jump to a root-level index. Written into a save and read back they must denote the
/// same position.
fn audit_root_positions(rep: &mut Report, c: &Compiled) -> Result<(), String> {
    let host = HostCfg { handler: true, fallbacks: true, fuel: Some(20_000), seed: Some(1), bind: c.info.externals.keys().map(|k| (k.clone(), true)).collect(), observe: vec![] };
    let wit = |what: &str, detail: Value| json!({"story": c.name, "what": what, "detail": detail, "source": c.src.as_ref().map(|s| truncate(s, 2000)), "json": truncate(&c.json, 1500)});
    let top_pointer = |save: &str| -> Option<(String, i64)> {
        let sv: Value = serde_json::from_str(save).ok()?;
        let flow_name = sv["currentFlowName"].as_str().unwrap_or("DEFAULT_FLOW").to_string();
        let el = sv["flows"][&flow_name]["callstack"]["threads"].as_array()?.last()?["callstack"].as_array()?.last()?.clone();
        Some((el["cPath"].as_str()?.to_string(), el["idx"].as_i64()?))
    };
    // the situations: (label, preparation)
    let root_len = {
        let st = Story::new(&c.json).map_err(|e| e.to_string())?;
        let a = st.verif_audit();
        a.entries.iter().filter(|e| e.parent == Some(0) && !e.named_only).count()
    };
    let mut situations: Vec<(String, Vec<Op>)> = vec![("fresh".into(), vec![]), ("new-flow".into(), vec![Op::Cont, Op::SwitchFlow("aside".into())])];
    for k in 0..root_len.min(6) {
        situations.push((format!("jump-to-root-index-{k}"), vec![Op::ChoosePath(k.to_string(), true)]));
    }
    for (label, prep) in situations {
        let mut p = Player::new(c.json.clone(), c.info.clone(), host.clone())?;
        let mut ok = true;
        for op in prep.iter() {
            if matches!(op, Op::Cont) && !p.story.can_continue() {
                continue;
            }
            if p.apply(op).res.is_err() {
                ok = false;
            }
        }
        if !ok || p.story.has_error() {
            rep.count("root-position-situations-not-reachable");
            continue;
        }
        rep.case(Some(fnv(&format!("{}|root-pos|{label}", c.name))));
        rep.count(&format!("root-position:{}", label.split("-index-").next().unwrap_or(&label)));
        let cur = p.story.get_current_path();
        let can = p.story.can_continue();
        let Ok(save) = p.story.save_state() else { continue };
        if let (Some(cur), Some((cp, idx))) = (&cur, top_pointer(&save)) {
            let expected = if cp.is_empty() { idx.to_string() } else { format!("{cp}.{idx}") };
            if *cur != expected {
                rep.violation("position/current-path-differs-from-saved-pointer", wit("get_current_path() and the (cPath, idx) written into the save denote different positions", json!({"situation": label, "get_current_path": cur, "save_cPath_idx": expected})));
                continue;
            }
            if let Some(k) = label.strip_prefix("jump-to-root-index-")
                && *cur != k
            {
                rep.violation("position/jump-to-root-index-lands-elsewhere", wit("after choose_path_string(N) the current path is not N", json!({"situation": label, "get_current_path": cur})));
                continue;
            }
        }
        // read back in a fresh story: same position, same ability to continue, same next line, same save
        let mut q = Player::new(c.json.clone(), c.info.clone(), host.clone())?;
        if let Err(e) = q.story.load_state(&save) {
            rep.violation("position/save-of-root-position-does-not-load", wit("a save taken at a root-level position is rejected", json!({"situation": label, "error": e.to_string()})));
            continue;
        }
        let (cur2, can2) = (q.story.get_current_path(), q.story.can_continue());
        if cur2 != cur || can2 != can {
            rep.violation("position/root-position-lost-by-save-load", wit("position or can_continue differ after save + load", json!({"situation": label, "before": {"path": cur, "can_continue": can}, "after": {"path": cur2, "can_continue": can2}})));
            continue;
        }
        let (s1, s2) = (p.canonical_save().ok(), q.canonical_save().ok());
        if s1 != s2 {
            rep.violation("position/root-position-resave-differs", wit("the save of the loaded story differs from the save it was loaded from", json!({"situation": label})));
            continue;
        }
        if can {
            let (a, b) = (p.apply(&Op::Cont), q.apply(&Op::Cont));
            if a.res != b.res || a.snap != b.snap {
                rep.violation("position/root-position-continues-differently-after-load", wit("the next line differs after save + load", json!({"situation": label, "original": a.to_json(), "loaded": b.to_json()})));
            }
        }
    }
    Ok(())
}

/// stories with text, commands and containers directly in the root container (legal runtime JSON that the compiler
/// does not happen to write)
pub const ROOT_CONTENT: &[&str] = &[
    r#"{"inkVersion":21,"root":["^line one","\n","^line two","\n",["^in a container","\n",null],"^after","\n","done",null],"listDefs":{}}"#,
    r#"{"inkVersion":21,"root":["^first","\n",["ev","str","^go on","/str","/ev",{"*":"2.c-0","flg":20},{"c-0":["^chosen","\n",{"->":"3"},null]}],"^back in the root","\n","^second root line","\n","end",{"k":["^knot","\n","done",null]}],"listDefs":{}}"#,
];

pub const TINY: &[&str] = crate::props::c18::TINY;

pub fn run(cfg: &Cfg) -> i32 {
    let mut rep = Report::new(
        cfg,
        "exploration",
        "case = one runtime object of one loaded story (reference corpus, own compilation of the corpus, compiled generated programs), plus positions written by the engine during seeded play. Per object (ALL objects of each story): the reported path resolves from the root to that very object without approximation; text -> path -> text is the identity and keeps relativity; the parsed path, the path rebuilt from its components and the object's own path agree in ==, hash and text; paths of parent / sibling / child compare unequal; the engine's relative path to ~12 nearby objects and to random objects resolves to the target, survives a text round trip (still relative), and the compact form written into JSON resolves too. Per play position: get_current_path() equals the (cPath, idx) of the top call-stack element in a save taken at the same moment, and every cPath+idx, previousContentObject, currentDivertTarget, originalChoicePath and targetPath in the save resolves exactly. Non-trivial = all; distinct by (story, path).",
        cfg.pick(20_000, 500_000),
    );
    let tiny_only = cfg.get("tiny").is_some();
    let mut stories: Vec<Compiled> = Vec::new();
    if tiny_only {
        for (k, src) in TINY.iter().enumerate() {
            if let Ok(j) = bladeink_compiler::Compiler::new().compile(src)
                && let Some(c) = from_json(&format!("tiny-{k}"), j, Some(src.to_string()))
            {
                stories.push(c);
            }
        }
    } else {
        stories = corpus_stories(&cfg.corpus_dir(), true, true, if cfg.quick() { 4000 } else { 1_000_000 });
        for (k, j) in ROOT_CONTENT.iter().enumerate() {
            if let Some(c) = from_json(&format!("root-content-{k}"), j.to_string(), None) {
                stories.insert(0, c);
            }
        }
        let gc = GenCfg::rich();
        for i in 0..cfg.get_u64("programs", cfg.pick(60, 2500)) {
            if let GenOutcome::Ok(c) = generated(cfg.seed, "C19", i, &gc) {
                stories.push(c);
            }
        }
    }
    let pairs = cfg.pick(2, 6);
    let mut sampled = 0;
    for (si, c) in stories.iter().enumerate() {
        if !cfg.mine(si as u64) {
            continue;
        }
        let mut rng = Rng::derive(cfg.seed, "C19", si as u64);
        let r = std::panic::catch_unwind(std::panic::AssertUnwindSafe(|| {
            let a = audit_story(&mut rep, c, &mut rng, pairs);
            let b = if tiny_only { Ok(()) } else { audit_positions(&mut rep, c, &mut rng) };
            let r = if tiny_only { Ok(()) } else { audit_root_positions(&mut rep, c) };
            a.and(b).and(r)
        }));
        match r {
            Err(_) => {
                rep.panic_caught("audit", json!({"story": c.name, "source": c.src.as_ref().map(|s| truncate(s, 2000))}));
            }
            Ok(Err(_)) => rep.inconclusive("story-did-not-load"),
            Ok(Ok(())) => {
                if sampled < 3 && si % 7 == 3 {
                    sampled += 1;
                    if let Ok(st) = Story::new(&c.json) {
                        let a = st.verif_audit();
                        let k = a.entries.len() / 2;
                        let e = &a.entries[k];
                        let t = a.entries[k].parent.unwrap_or(0);
                        rep.sample(json!({"story": c.name, "objects": a.entries.len(), "example_object": {"path": e.path, "kind": e.kind, "text": truncate(&e.text, 80)},
                            "example_relative_to_parent": a.relative(k, t).0, "example_compact": a.compact(k, t)}));
                    }
                }
            }
        }
    }
    rep.count_n("stories", stories.len() as u64);
    rep.exhaustive = Some(false);
    rep.finish()
}

//! C10 — flows are independent except for global variables and counts.
use crate::player::{HostCfg, Op, Player, Rec, Snap, recs_json};
use crate::programs::{Compiled, GenOutcome, compile_ast};
use crate::r#gen::build::{GenCfg, Meta, generate};
use crate::r#gen::rename::{merge, prefix_program};
use crate::rng::{Rng, fnv};
use crate::util::{Cfg, Report, truncate};
use serde_json::{Value, json};

#[derive(Clone)]
struct Script {
    /// "" = default flow
    flow: String,
    entry: String,
    ops: Vec<Op>,
    recs: Vec<Rec>,
    vars: Vec<(String, String)>,
    prefix: String,
}

fn host() -> HostCfg {
    HostCfg { handler: false, fallbacks: true, fuel: Some(30_000), seed: Some(4), bind: vec![], observe: vec![] }
}

fn enter(p: &mut Player, flow: &str) -> Rec {
    if flow.is_empty() { p.apply(&Op::SwitchDefault) } else { p.apply(&Op::SwitchFlow(flow.to_string())) }
}

/// Plays one sub-story alone, in its own flow of a fresh story.
fn solo(c: &Compiled, flow: &str, prefix: &str, rng: &mut Rng, max_ops: usize) -> Result<Option<Script>, String> {
    let mut p = Player::new(c.json.clone(), c.info.clone(), host())?;
    let entry = format!("{prefix}k0");
    enter(&mut p, flow);
    let r = p.apply(&Op::ChoosePath(entry.clone(), false));
    if r.res.is_err() {
        return Ok(None);
    }
    let mut ops = Vec::new();
    let mut recs = Vec::new();
    while ops.len() < max_ops {
        let op = if p.story.can_continue() {
            Op::Cont
        } else {
            let n = p.story.get_current_choices().len();
            if n == 0 {
                break;
            }
            Op::Choose(rng.below(n))
        };
        let rec = p.apply(&op);
        let bad = rec.res.is_err() || !rec.snap.errors.is_empty() || !rec.snap.warnings.is_empty();
        ops.push(op);
        recs.push(rec);
        if bad || p.fuel_hit {
            return Ok(None); // the property is about error-free scripts
        }
    }
    let vars = p.full_state().vars.into_iter().filter(|(n, _)| n.starts_with(prefix)).collect();
    Ok(Some(Script { flow: flow.to_string(), entry, ops, recs, vars, prefix: prefix.to_string() }))
}

fn snap_eq(a: &Snap, b: &Snap) -> bool {
    a.can_continue == b.can_continue && a.text == b.text && a.tags == b.tags && a.choices == b.choices && a.errors == b.errors
}

#[derive(Clone, Debug)]
enum Step {
    /// next op of script i
    Next(usize),
    SaveLoad,
    /// switch to flow of script i and straight back
    AwayAndBack(usize),
    /// remove the flow of finished script i (and check that re-creating it gives a brand-new flow)
    RemoveFinished(usize),
}

struct RunOut {
    diff: Option<(String, Value)>,
    steps: u64,
    log: Vec<Rec>,
}

fn run_interleaving(c: &Compiled, scripts: &[Script], plan: &[Step], fresh_flow_snap: &Snap) -> Result<RunOut, String> {
    let mut p = Player::new(c.json.clone(), c.info.clone(), host())?;
    let mut cursor = vec![0usize; scripts.len()];
    let mut started = vec![false; scripts.len()];
    let mut removed = vec![false; scripts.len()];
    let mut current: Option<usize> = None;
    let mut out = RunOut { diff: None, steps: 0, log: Vec::new() };
    macro_rules! fail {
        ($sig:expr, $detail:expr) => {{
            out.diff = Some(($sig, $detail));
            out.log = p.recs.clone();
            return Ok(out);
        }};
    }
    for st in plan {
        out.steps += 1;
        match st {
            Step::Next(i) => {
                let s = &scripts[*i];
                if cursor[*i] >= s.ops.len() || removed[*i] {
                    continue;
                }
                if current != Some(*i) {
                    enter(&mut p, &s.flow);
                    current = Some(*i);
                }
                if !started[*i] {
                    started[*i] = true;
                    let r = p.apply(&Op::ChoosePath(s.entry.clone(), false));
                    if r.res.is_err() {
                        fail!("flows/entry-refused".to_string(), json!({"flow": s.flow, "result": format!("{:?}", r.res)}));
                    }
                }
                let k = cursor[*i];
                let rec = p.apply(&s.ops[k]);
                cursor[*i] += 1;
                let solo = &s.recs[k];
                if rec.res != solo.res || !snap_eq(&rec.snap, &solo.snap) {
                    let field = if rec.res != solo.res {
                        "result"
                    } else if rec.snap.text != solo.snap.text {
                        "text"
                    } else if rec.snap.choices != solo.snap.choices {
                        "choices"
                    } else if rec.snap.tags != solo.snap.tags {
                        "tags"
                    } else if rec.snap.can_continue != solo.snap.can_continue {
                        "can_continue"
                    } else {
                        "errors"
                    };
                    fail!(format!("flows/transcript-{field}"), json!({"flow": s.flow, "script_op_index": k, "op": s.ops[k].show(), "alone": solo.to_json(), "interleaved": rec.to_json()}));
                }
            }
            Step::SaveLoad => {
                let before = p.snap();
                let r = p.apply(&Op::SaveLoadFresh);
                if r.res.is_err() {
                    fail!("flows/save-load-failed".to_string(), json!(format!("{:?}", r.res)));
                }
                if !snap_eq(&before, &r.snap) {
                    fail!("flows/save-load-current-flow".to_string(), json!({"before": before.to_json(), "after": r.snap.to_json()}));
                }
            }
            Step::AwayAndBack(j) => {
                let Some(cur) = current else { continue };
                if *j == cur || removed[*j] {
                    continue;
                }
                let before = p.snap();
                enter(&mut p, &scripts[*j].flow);
                let r = enter(&mut p, &scripts[cur].flow);
                if !snap_eq(&before, &r.snap) {
                    fail!("flows/away-and-back".to_string(), json!({"before": before.to_json(), "after": r.snap.to_json()}));
                }
            }
            Step::RemoveFinished(i) => {
                let s = &scripts[*i];
                if s.flow.is_empty() || !started[*i] || cursor[*i] < s.ops.len() || removed[*i] {
                    continue;
                }
                let was_current = current == Some(*i);
                let r = p.apply(&Op::RemoveFlow(s.flow.clone()));
                if r.res.is_err() {
                    fail!("flows/remove-refused".to_string(), json!(format!("{:?}", r.res)));
                }
                removed[*i] = true;
                if was_current {
                    // the engine falls back to the default flow
                    current = scripts.iter().position(|x| x.flow.is_empty());
                    if current.is_none() {
                        current = Some(usize::MAX);
                    }
                }
                // a flow of that name created again must be brand new
                let back = current;
                let r = p.apply(&Op::SwitchFlow(s.flow.clone()));
                if !snap_eq(&r.snap, fresh_flow_snap) {
                    fail!("flows/removed-flow-survives".to_string(), json!({"flow": s.flow, "expected_fresh": fresh_flow_snap.to_json(), "got": r.snap.to_json(), "removed_while_current": was_current}));
                }
                p.apply(&Op::RemoveFlow(s.flow.clone()));
                match back {
                    Some(b) if b != usize::MAX => {
                        enter(&mut p, &scripts[b].flow);
                        current = Some(b);
                    }
                    _ => {
                        p.apply(&Op::SwitchDefault);
                        current = Some(usize::MAX);
                    }
                }
            }
        }
    }
    // the flows' own variables ended as in the solo runs
    let fs = p.full_state();
    for s in scripts {
        let mine: Vec<(String, String)> = fs.vars.iter().filter(|(n, _)| n.starts_with(&s.prefix)).cloned().collect();
        if cursor[scripts.iter().position(|x| x.prefix == s.prefix).unwrap()] >= s.ops.len() && mine != s.vars {
            fail!("flows/final-variables".to_string(), json!({"flow": s.flow, "alone": s.vars, "interleaved": mine}));
        }
    }
    Ok(out)
}

fn interleavings(a: usize, b: usize) -> Vec<Vec<usize>> {
    // all orders of a zeros and b ones
    fn rec(a: usize, b: usize, cur: &mut Vec<usize>, out: &mut Vec<Vec<usize>>) {
        if a == 0 && b == 0 {
            out.push(cur.clone());
            return;
        }
        if a > 0 {
            cur.push(0);
            rec(a - 1, b, cur, out);
            cur.pop();
        }
        if b > 0 {
            cur.push(1);
            rec(a, b - 1, cur, out);
            cur.pop();
        }
    }
    let mut out = Vec::new();
    rec(a, b, &mut Vec::new(), &mut out);
    out
}

pub fn run(cfg: &Cfg) -> i32 {
    let mut rep = Report::new(
        cfg,
        "exploration",
        "case = (program made of 2-3 mutually disjoint error-free sub-stories, one per flow (one of them may use the default flow), interleaving plan): each sub-story is first played alone in its own flow of a fresh story (choices by seed); then the host operations of all flows are interleaved - ALL C(8,4)=70 orders of the first four operations of two flows, then random orders - with, at every point of the interleaving in turn, a save + load into a fresh story, a switch to another flow and back, or removal of a finished flow (which must not be resurrected by switching to its name again). Every record of every flow (result, text, tags, choices, can_continue) and each flow's own final variables must equal the solo run. Non-trivial = plans with at least two flows that both produced text; distinct by (program, plan).",
        cfg.pick(1500, 40000),
    );
    rep.assumptions.push("sub-stories share nothing observable: own knots, labels, variables and lists (identifier prefixes), no RANDOM / TURNS_SINCE / TURNS (those read counters that all flows legitimately share)".into());
    let nprog = cfg.get_u64("programs", cfg.pick(30, 800));
    let mut gc = GenCfg::core();
    gc.turns_since = false;
    gc.lists = true;
    gc.shuffles = true;
    gc.flow_knots = (1, 3);
    gc.thread_boost = true;
    let mut sampled = 0;
    for i in 0..nprog {
        if !cfg.mine(i) {
            continue;
        }
        let mut rng = Rng::derive(cfg.seed, "C10", i);
        let nflows = if i % 4 == 3 { 3 } else { 2 };
        let prefixes = ["a_", "b_", "c_"];
        let mut parts = Vec::new();
        for pre in prefixes.iter().take(nflows) {
            let (p, _m) = generate(&gc, &mut rng);
            parts.push(prefix_program(&p, pre));
        }
        let merged = merge(&parts);
        let c = match compile_ast(&format!("gen-C10-s{}-{}", cfg.seed, i), merged, Meta::default()) {
            GenOutcome::Ok(c) => c,
            GenOutcome::CompileError(_, e) => {
                rep.inconclusive(&format!("merged-program-did-not-compile: {}", truncate(&e, 60)));
                continue;
            }
            GenOutcome::CompilePanic(_) => {
                rep.inconclusive("compiler-panicked (C06's business)");
                continue;
            }
        };
        // flow names: sometimes the first script runs in the default flow
        let names: Vec<String> = (0..nflows).map(|k| if k == 0 && i % 3 == 0 { String::new() } else { format!("f{}", (b'a' + k as u8) as char) }).collect();
        let max_ops = cfg.pick(14, 24);
        let mut scripts = Vec::new();
        let mut ok = true;
        for k in 0..nflows {
            // the same sub-story, same choices, alone in the DEFAULT flow of a fresh story: a named flow must play it
            // exactly like that (own position, call stack and temporaries)
            let mut rng_default = rng.clone();
            let in_default = std::panic::catch_unwind(std::panic::AssertUnwindSafe(|| solo(&c, "", prefixes[k], &mut rng_default, max_ops)));
            let in_named = std::panic::catch_unwind(std::panic::AssertUnwindSafe(|| solo(&c, &names[k], prefixes[k], &mut rng, max_ops)));
            if !names[k].is_empty()
                && let Ok(Ok(Some(d))) = &in_default
                && !d.ops.is_empty()
            {
                rep.count("solo-runs-compared-default-vs-named-flow");
                let same = matches!(&in_named, Ok(Ok(Some(n))) if n.ops.len() == d.ops.len()
                    && n.recs.iter().zip(d.recs.iter()).all(|(a, b)| a.res == b.res && snap_eq(&a.snap, &b.snap)) && n.vars == d.vars);
                if !same {
                    let named_log = match &in_named {
                        Ok(Ok(Some(n))) => recs_json(&n.recs),
                        Ok(Ok(None)) => json!("the run in the named flow raised an error or warning (the run in the default flow did not)"),
                        _ => json!("the run in the named flow failed"),
                    };
                    rep.violation("flows/solo-in-named-flow-differs-from-default-flow", json!({"program": c.name, "source": c.src, "flow": names[k], "entry": d.entry,
                        "ops": d.ops.iter().map(|o| o.show()).collect::<Vec<_>>(), "default_flow_log": recs_json(&d.recs), "named_flow_log": named_log}));
                    ok = false;
                    break;
                }
            }
            match in_named {
                Ok(Ok(Some(s))) if !s.ops.is_empty() => scripts.push(s),
                Ok(Ok(_)) => {
                    rep.inconclusive("sub-story-not-error-free-or-empty");
                    ok = false;
                    break;
                }
                _ => {
                    rep.inconclusive("solo-run-failed");
                    ok = false;
                    break;
                }
            }
        }
        if !ok {
            continue;
        }
        // what a brand-new flow looks like in this story
        let fresh_flow_snap = {
            let Ok(mut p) = Player::new(c.json.clone(), c.info.clone(), host()) else { continue };
            p.apply(&Op::SwitchFlow("brand_new".into())).snap
        };
        // base orders
        let mut orders: Vec<(String, Vec<usize>)> = Vec::new();
        let tail = |used: &[usize], rng: &mut Rng| -> Vec<usize> {
            let mut rest: Vec<usize> = Vec::new();
            for (k, s) in scripts.iter().enumerate() {
                for _ in used[k]..s.ops.len() {
                    rest.push(k);
                }
            }
            rng.shuffle(&mut rest);
            rest
        };
        if nflows == 2 && (i % 2 == 0 || !cfg.quick()) {
            let (na, nb) = (scripts[0].ops.len().min(4), scripts[1].ops.len().min(4));
            for (n, il) in interleavings(na, nb).into_iter().enumerate() {
                let mut o = il;
                o.extend(tail(&[na, nb], &mut rng));
                orders.push((format!("exhaustive-prefix-{n}"), o));
            }
        }
        for n in 0..cfg.pick(6, 20) {
            let used = vec![0; nflows];
            orders.push((format!("random-{n}"), tail(&used, &mut rng)));
        }
        for (oname, order) in orders.iter() {
            // perturbation variants: none, and one perturbation at a (rotating) point
            let mut variants: Vec<(String, Vec<Step>)> = Vec::new();
            let base: Vec<Step> = order.iter().map(|k| Step::Next(*k)).collect();
            variants.push(("plain".into(), base.clone()));
            let npts = base.len() + 1;
            // every point for the first random order of a program (and all of them in thorough), sampled otherwise
            let pts: Vec<usize> = if oname == "random-0" || (!cfg.quick() && oname.starts_with("random")) { (0..npts).collect() } else { vec![rng.below(npts), rng.below(npts)] };
            for pt in pts {
                for (pname, pert) in [("save-load", Step::SaveLoad), ("away-and-back", Step::AwayAndBack(rng.below(nflows))), ("remove-finished", Step::RemoveFinished(rng.below(nflows)))] {
                    let mut v = base.clone();
                    v.insert(pt, pert);
                    variants.push((format!("{pname}@{pt}"), v));
                }
                // two saves with one or two operations between them (a load followed by progress and another save)
                let gap = 1 + rng.below(2);
                if pt + gap <= base.len() {
                    let mut v = base.clone();
                    v.insert(pt + gap, Step::SaveLoad);
                    v.insert(pt, Step::SaveLoad);
                    variants.push((format!("double-save-load@{pt}+{gap}"), v));
                }
            }
            for (vname, plan) in variants.iter() {
                let r = std::panic::catch_unwind(std::panic::AssertUnwindSafe(|| run_interleaving(&c, &scripts, plan, &fresh_flow_snap)));
                let nontrivial = scripts.iter().filter(|s| s.recs.iter().any(|r| matches!(&r.res, Ok(t) if !t.trim().is_empty()))).count() >= 2;
                rep.case(if nontrivial { Some(fnv(&format!("{}|{oname}|{vname}", c.name))) } else { None });
                rep.count(vname.split('@').next().unwrap_or("plain"));
                let witness = |what: &str, detail: Value, log: &[Rec]| {
                    json!({"program": c.name, "source": c.src, "flows": scripts.iter().map(|s| json!({"flow": if s.flow.is_empty() {"DEFAULT_FLOW"} else {&s.flow}, "entry": s.entry, "ops": s.ops.iter().map(|o| o.show()).collect::<Vec<_>>()})).collect::<Vec<_>>(),
                        "order": oname, "variant": vname, "plan": plan.iter().map(|s| format!("{s:?}")).collect::<Vec<_>>(), "what": what, "detail": detail, "interleaved_log_tail": recs_json(&log[log.len().saturating_sub(8)..])})
                };
                match r {
                    Err(e) => {
                        let msg = e.downcast_ref::<String>().cloned().or_else(|| e.downcast_ref::<&str>().map(|s| s.to_string())).unwrap_or_default();
                        rep.panic_caught("flows", witness("panic", json!(msg), &[]));
                    }
                    Ok(Err(e)) => rep.harness_error(&e),
                    Ok(Ok(o)) => {
                        rep.count_n("interleaving-steps", o.steps);
                        if let Some((sig, detail)) = o.diff {
                            let v = vname.split('@').next().unwrap_or("plain");
                            rep.violation(&format!("{sig}/{v}"), witness("a flow's transcript differs from its solo transcript", detail, &o.log));
                        } else if sampled < 3 && vname.starts_with("save-load") && plan.len() > 10 {
                            sampled += 1;
                            rep.sample(json!({"program": c.name, "source": c.src.as_ref().map(|s| truncate(s, 1500)), "order": oname, "variant": vname,
                                "plan": plan.iter().map(|s| format!("{s:?}")).collect::<Vec<_>>()}));
                        }
                    }
                }
            }
        }
    }
    rep.finish()
}

pub mod c02;
pub mod c05;

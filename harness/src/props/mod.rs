pub mod c02;
pub mod c05;
pub mod c08;
pub mod c09;
pub mod c10;
pub mod c16;
pub mod c17;
pub mod c18;

pub mod c05;

//! C13 — every runtime error and warning is delivered exactly once.
//! Self-describing programs: each planted message source prints a marker line when (and only when) it is
//! executed, so the delivered text itself says how many messages must have been raised.
use crate::player::{HostCfg, Op, Player, Rec, recs_json};
use crate::programs::{Compiled, from_json};
use crate::rng::{Rng, fnv};
use crate::util::{Cfg, Report, truncate};
use serde_json::{Value, json};

fn program(rng: &mut Rng) -> String {
    let mut s = String::from("VAR gz = 0\nVAR gn = 0\n-> hub\n=== hub ===\nhub {gn}\n~ gn = gn + 1\n");
    let follow = |rng: &mut Rng| -> &'static str {
        // what comes right after the line that raised the message decides how far the engine looks ahead
        match rng.below(5) {
            0 => "plain text follows\n-> hub\n",
            1 => "<> glued on\n-> hub\n",
            2 => "-> hub\n",
            3 => "* [a choice follows] -> hub\n+ [or this] -> hub\n",
            _ => "~ gn = gn + 1\n-> hub\n",
        }
    };
    let nwarn = 1 + rng.below(3);
    let mut knots = Vec::new();
    for w in 0..nwarn {
        knots.push((format!("kwarn{w}"), format!("=== kwarn{w} ===\nentering warn{w}\nwarnline{w} {{missing_var_{w}}} end\n{}", follow(rng))));
    }
    knots.push(("kerr".into(), "=== kerr ===\nentering err\nerrline {1 / gz} tail\nnever shown\n-> hub\n".into()));
    knots.push(("kboth".into(), format!("=== kboth ===\nentering both\nbothline {{missing_both}} {{1 % gz}} tail\n{}", follow(rng))));
    knots.push(("ktwo".into(), format!("=== ktwo ===\nentering two\ntwoline {{missing_two_a}} {{missing_two_b}}\n{}", follow(rng))));
    knots.push(("kfn".into(), format!("=== kfn ===\nentering fn\nfnline {{warnfn()}} end\n{}=== function warnfn() ===\n~ return missing_in_fn + 1\n", follow(rng))));
    for (name, _) in knots.iter() {
        s.push_str(&format!("+ [go {name}] -> {name}\n"));
    }
    s.push_str("* [finish] -> END\n");
    for (_, body) in knots.iter() {
        s.push_str(body);
    }
    // reached only by a host jump: one line, then the story runs out of content (an error of that very continue)
    s.push_str("=== kout ===\nleaving now\n");
    s
}

/// which messages a delivered line proves were raised: (warnings, errors) by the variable names in them
fn expected_from_line(line: &str) -> (Vec<String>, Vec<&'static str>) {
    let mut w = Vec::new();
    let mut e = Vec::new();
    for k in 0..4 {
        if line.starts_with(&format!("warnline{k} ")) {
            w.push(format!("missing_var_{k}"));
        }
    }
    if line.starts_with("twoline ") {
        w.push("missing_two_a".into());
        w.push("missing_two_b".into());
    }
    if line.starts_with("fnline ") {
        w.push("missing_in_fn".into());
    }
    let _ = &mut e;
    (w, e)
}

struct Tally {
    diff: Option<(String, Value)>,
    warnings_expected: u64,
    errors_expected: u64,
    continues: u64,
}

fn run_case(c: &Compiled, handler: bool, version_warning: bool, rng: &mut Rng, max_ops: usize) -> Result<(Tally, Vec<String>, Vec<Rec>), String> {
    let host = HostCfg { handler, fallbacks: true, fuel: Some(20_000), seed: Some(1), bind: vec![], observe: vec![] };
    let mut p = Player::new(c.json.clone(), c.info.clone(), host)?;
    let mut t = Tally { diff: None, warnings_expected: 0, errors_expected: 0, continues: 0 };
    let mut ops: Vec<String> = Vec::new();
    let mut pending_version = version_warning;
    // what the previous delivered line announced: "entering err"/"entering both" means the next continue raises an error
    let mut announced: Option<String> = None;
    let mut polled_warnings = 0usize; // length of get_current_warnings at the previous boundary (no-handler mode)
    macro_rules! fail {
        ($sig:expr, $detail:expr) => {{
            t.diff = Some(($sig.to_string(), $detail));
            return Ok((t, ops, p.recs.clone()));
        }};
    }
    for _ in 0..max_ops {
        // a save + load of the same instance between continues: what is pending (the construction warning before the
        // first continue, the lists a handler-less host has not read yet) must neither be lost nor delivered again
        if rng.chance(1, 10) && !p.story.has_error() {
            let before = (p.story.get_current_warnings().to_vec(), p.story.get_current_errors().to_vec());
            let r = p.apply(&Op::SaveLoadSame);
            ops.push(r.op.clone());
            if r.res.is_ok() {
                let after = (p.story.get_current_warnings().to_vec(), p.story.get_current_errors().to_vec());
                if before != after || !r.events.is_empty() {
                    fail!("messages/changed-by-save-load", json!({"before": before, "after": after, "events": r.events, "pending_version_warning": pending_version}));
                }
            }
        }
        if p.story.can_continue() {
            // a third of the continues are sliced by the virtual clock; messages of all slices belong to the line
            let mut r = if rng.chance(1, 3) {
                let mut events: Vec<String> = Vec::new();
                let mut guard = 0;
                loop {
                    let b = 1 + rng.below(7) as u64;
                    let mut rr = p.apply(&Op::ContAsync(b));
                    events.extend(rr.events.clone());
                    guard += 1;
                    let paused = matches!(&rr.res, Ok(s) if s == "paused");
                    if !paused || guard > 3000 {
                        if let Ok(s) = &rr.res
                            && s == "done"
                        {
                            rr.res = Ok(rr.snap.text.clone());
                        }
                        rr.events = events;
                        break rr;
                    }
                }
            } else {
                p.apply(&Op::Cont)
            };
            let _ = &mut r;
            ops.push(if r.op.starts_with("ContAsync") { "Cont(sliced)".into() } else { "Cont".into() });
            t.continues += 1;
            if p.fuel_hit {
                break;
            }
            let text = match &r.res {
                Ok(s) => s.clone(),
                Err(_) => r.snap.text.clone(),
            };
            // expected messages of this continue
            let (mut want_w, _) = expected_from_line(&text);
            let mut want_e: Vec<&str> = Vec::new();
            match announced.as_deref() {
                Some("entering err") => want_e.push("Division by zero"),
                Some("jumped to kout") => want_e.push("ran out of content"),
                Some("entering both") => {
                    want_e.push("Modulo by zero");
                    want_w.push("missing_both".into());
                }
                _ => {}
            }
            if pending_version {
                want_w.push("Version of ink".into());
                pending_version = false;
            }
            t.warnings_expected += want_w.len() as u64;
            t.errors_expected += want_e.len() as u64;
            announced = if text.starts_with("entering ") { Some(text.trim().to_string()) } else { None };
            if handler {
                let got_w: Vec<&String> = r.events.iter().filter(|e| e.starts_with("handler W")).collect();
                let got_e: Vec<&String> = r.events.iter().filter(|e| e.starts_with("handler E")).collect();
                let w_ok = got_w.len() == want_w.len() && want_w.iter().all(|w| got_w.iter().filter(|g| g.contains(w.as_str())).count() == 1);
                let e_ok = got_e.len() == want_e.len() && want_e.iter().all(|w| got_e.iter().filter(|g| g.contains(w)).count() == 1);
                if !w_ok || !e_ok {
                    let kind = if !w_ok { if got_w.len() > want_w.len() { "warning-delivered-again-or-unexpected" } else { "warning-not-delivered" } } else if got_e.len() > want_e.len() { "error-delivered-again-or-unexpected" } else { "error-not-delivered" };
                    fail!(format!("handler/{kind}"), json!({"line": text, "expected_warnings_about": want_w, "expected_errors": want_e, "events": r.events}));
                }
                if r.res.is_err() {
                    fail!("handler/continue-returned-err-although-a-handler-is-set", r.to_json());
                }
                if !r.snap.errors.is_empty() || !r.snap.warnings.is_empty() {
                    fail!("handler/messages-still-listed-after-delivery", r.to_json());
                }
            } else {
                // no handler: an error makes this continue Err and stays readable; a warning never causes Err and is
                // readable afterwards, exactly once
                let now_w = r.snap.warnings.len();
                let new_w: Vec<&String> = r.snap.warnings.iter().skip(polled_warnings.min(now_w)).collect();
                let w_ok = now_w >= polled_warnings && new_w.len() == want_w.len() && want_w.iter().all(|w| new_w.iter().filter(|g| g.contains(w.as_str())).count() == 1);
                if !w_ok {
                    let kind = if new_w.len() > want_w.len() { "warning-listed-twice-or-unexpected" } else { "warning-not-readable-after-the-continue" };
                    fail!(format!("no-handler/{kind}"), json!({"line": text, "expected_new_warnings_about": want_w, "warnings_before": polled_warnings, "warnings_now": r.snap.warnings}));
                }
                polled_warnings = now_w;
                if want_e.is_empty() {
                    if r.res.is_err() {
                        fail!("no-handler/err-without-an-error(warning-caused-err?)", r.to_json());
                    }
                } else {
                    let ok = matches!(&r.res, Err((_, m)) if want_e.iter().all(|e| m.contains(e)));
                    if !ok || !want_e.iter().all(|e| r.snap.errors.iter().filter(|x| x.contains(e)).count() == 1) {
                        fail!("no-handler/error-did-not-make-the-continue-fail-or-is-not-readable", r.to_json());
                    }
                }
            }
            if !want_e.is_empty() {
                // an error always stops the story until it is reset or redirected
                if p.story.can_continue() {
                    fail!("story-continues-after-an-error", r.to_json());
                }
                if !handler {
                    // the error stays readable; trying to continue fails again without re-raising anything new
                    let again = p.apply(&Op::Cont);
                    ops.push("Cont(after error)".into());
                    if again.res.is_ok() || again.snap.errors.len() != r.snap.errors.len() || again.snap.warnings.len() != r.snap.warnings.len() {
                        fail!("no-handler/continue-after-error-changed-the-message-lists", json!({"first": r.to_json(), "again": again.to_json()}));
                    }
                }
                let op = if rng.chance(1, 2) { Op::Reset } else { Op::ChoosePath("hub".into(), true) };
                let rr = p.apply(&op);
                ops.push(rr.op.clone());
                if matches!(op, Op::Reset) {
                    polled_warnings = 0;
                    // the version warning belongs to construction, a reset story does not raise it again
                } else if !handler {
                    // a redirect does not clear the lists in no-handler mode; the error stays listed -> story stays stuck
                    if p.story.can_continue() && p.story.has_error() {
                        fail!("no-handler/can-continue-while-an-error-is-listed", rr.to_json());
                    }
                    if p.story.has_error() {
                        let r2 = p.apply(&Op::Reset);
                        ops.push(r2.op.clone());
                        polled_warnings = 0;
                    }
                }
                announced = None;
            }
        } else {
            let n = p.story.get_current_choices().len();
            if n == 0 {
                break;
            }
            if rng.chance(1, 9) {
                // the host jumps (with a call-stack reset) to a knot that prints one line and runs out of content
                let r = p.apply(&Op::ChoosePath("kout".into(), true));
                ops.push(r.op.clone());
                if r.res.is_ok() {
                    announced = Some("jumped to kout".to_string());
                    continue;
                }
            }
            let r = p.apply(&Op::Choose(rng.below(n)));
            ops.push(r.op.clone());
            if r.events.iter().any(|e| e.starts_with("handler")) {
                fail!("handler/message-delivered-outside-a-continue", r.to_json());
            }
        }
    }
    Ok((t, ops, p.recs.clone()))
}

pub fn run(cfg: &Cfg) -> i32 {
    let mut rep = Report::new(
        cfg,
        "exploration",
        "case = (self-describing program, handler on/off, ink version edited or not, seeded choices): each program has knots that raise a warning (read of an undeclared variable, also two in one line and one inside a function), an error (division by zero), or both in one line; the line that raises prints a marker, and what follows it varies (plain text = look-ahead rewound, glue = kept, divert, choice point, logic), so the delivered text itself states which messages must have been raised in that continue. With a handler: exactly those messages, once each, in that continue, nothing listed afterwards, continue never Err. Without: new entries of get_current_warnings are exactly those warnings, a warning never makes a continue fail, an error makes exactly that continue Err, stays readable, a further continue fails without changing the lists, can_continue is false until reset. The version-mismatch warning (inkVersion edited to 20) must arrive exactly once, at the first continue. After an error the story is reset or redirected and play goes on. Non-trivial = >= 1 expected message; distinct by (program, configuration, choices).",
        cfg.pick(4000, 1000000),
    );
    let nprog = cfg.get_u64("programs", cfg.pick(1500, 300000));
    let mut sampled = 0;
    for i in 0..nprog {
        if !cfg.mine(i) {
            continue;
        }
        let mut grng = Rng::derive(cfg.seed, "C13-prog", i);
        let src = program(&mut grng);
        let json_text = match std::panic::catch_unwind(|| bladeink_compiler::Compiler::new().compile(&src)) {
            Ok(Ok(j)) => j,
            _ => {
                let _ = crate::util::take_last_panic();
                rep.inconclusive("planted-program-did-not-compile");
                continue;
            }
        };
        for variant in 0..4u64 {
            let handler = variant % 2 == 0;
            let version = variant >= 2;
            let jt = if version { json_text.replacen("\"inkVersion\":21", "\"inkVersion\":20", 1) } else { json_text.clone() };
            let Some(c) = from_json(&format!("planted-{i}"), jt, Some(src.clone())) else { continue };
            for h in 0..cfg.pick(2, 4) as u64 {
                let mut rng = Rng::derive(cfg.seed, "C13-hist", i * 100 + variant * 10 + h);
                let r = std::panic::catch_unwind(std::panic::AssertUnwindSafe(|| run_case(&c, handler, version, &mut rng, cfg.pick(60, 120))));
                match r {
                    Err(_) => {
                        rep.panic_caught("messages", json!({"source": src, "handler": handler, "version_edited": version}));
                    }
                    Ok(Err(_)) => rep.inconclusive("story-did-not-load"),
                    Ok(Ok((t, ops, recs))) => {
                        rep.case(if t.warnings_expected + t.errors_expected > 0 { Some(fnv(&format!("{i}|{variant}|{h}"))) } else { None });
                        rep.count_n("continues", t.continues);
                        rep.count_n(if handler { "warnings-expected:handler" } else { "warnings-expected:no-handler" }, t.warnings_expected);
                        rep.count_n(if handler { "errors-expected:handler" } else { "errors-expected:no-handler" }, t.errors_expected);
                        if let Some((sig, detail)) = t.diff {
                            rep.violation(
                                &format!("messages/{sig}"),
                                json!({"source": src, "handler": handler, "version_edited": version, "history": ops, "detail": detail, "log_tail": recs_json(&recs[recs.len().saturating_sub(4)..])}),
                            );
                        } else if sampled < 3 && t.errors_expected > 0 && t.warnings_expected > 2 {
                            sampled += 1;
                            rep.sample(json!({"source": truncate(&src, 1500), "handler": handler, "version_edited": version, "history": ops, "warnings_expected": t.warnings_expected, "errors_expected": t.errors_expected}));
                        }
                    }
                }
            }
        }
    }
    rep.finish()
}

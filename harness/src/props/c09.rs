//! C09 — a rejected host call leaves the story exactly as it was.
use crate::history::{HistCfg, gen_history};
use crate::lockstep::{CmpOpts, cmp_state, inject};
use crate::player::{HostCfg, Op, Val, recs_json};
use crate::programs::{Compiled, GenOutcome, generated};
use crate::r#gen::build::GenCfg;
use crate::rng::{Rng, fnv};
use crate::util::{Cfg, Report, truncate};
use serde_json::json;

/// (kind name, op, must return Err)
fn invalid_calls(c: &Compiled, can_continue: bool, nchoices: usize, rng: &mut Rng) -> Vec<(&'static str, Op, bool)> {
    let mut v: Vec<(&'static str, Op, bool)> = Vec::new();
    if !can_continue {
        v.push(("continue-when-cannot", Op::Cont, true));
        v.push(("continue-maximally-when-cannot", Op::ContMax, false)); // returns Ok("") by design: loops while can_continue
        v.push(("continue-async-when-cannot", Op::ContAsync(3), true));
    }
    v.push(("choose-out-of-range", Op::Choose(nchoices + rng.below(3)), true));
    v.push(("choose-huge-index", Op::Choose(usize::MAX), true));
    v.push(("set-undeclared-variable", Op::SetVar("no_such_var".into(), Val::Int(1)), true));
    v.push(("observe-undeclared-variable", Op::Observe(90, "no_such_var".into()), true));
    v.push(("evaluate-unknown-function", Op::EvalFn("no_such_fn".into(), vec![]), true));
    v.push(("evaluate-blank-function", Op::EvalFn("  ".into(), vec![]), true));
    v.push(("evaluate-empty-function", Op::EvalFn(String::new(), vec![Val::Int(1)]), true));
    // an existing function, but an argument the engine cannot pass (a divert target read back from a global)
    if let Some(m) = &c.meta
        && let Some(f) = m.functions.first()
        && c.info.globals.iter().any(|g| g == "gd")
    {
        v.push(("evaluate-existing-function-bad-argument", Op::EvalFnVarArg(f.0.clone(), "gd".into()), true));
    }
    v.push(("jump-unknown-path-reset", Op::ChoosePath("no_such_knot".into(), true), true));
    v.push(("jump-unknown-path-keep", Op::ChoosePath("no_such_knot.nor_stitch".into(), false), true));
    v.push(("bind-twice", Op::Bind("hostfn".into(), true), true));
    // a second handler (distinguishable in the callback log) for a name the story really calls
    if let Some(x) = c.info.externals.keys().next() {
        v.push(("bind-twice-story-external", Op::Bind(x.clone(), false), true));
    }
    v.push(("unbind-unbound", Op::Unbind("never_bound".into()), true));
    v.push(("load-garbage", Op::LoadText("{\"this is\": \"not a save\"}".into()), true));
    v.push(("load-not-json", Op::LoadText("][ nonsense".into()), true));
    v.push(("load-truncated-save", Op::LoadText("{\"flows\":{\"DEFAULT_FLOW\":{\"callstack\":{\"threads\":[]".into()), true));
    v.push(("tags-of-non-container", Op::TagsAt("no_such_knot".into()), true));
    v.push(("remove-default-flow", Op::RemoveFlow("DEFAULT_FLOW".into()), true));
    v.push(("remove-absent-flow", Op::RemoveFlow("never_created".into()), false));
    v.push(("remove-unregistered-observer", Op::Unobserve(91, None), false));
    v.push(("remove-unregistered-observer-named", Op::Unobserve(91, c.info.globals.first().cloned()), false));
    v.push(("visit-count-unknown-path", Op::VisitCount("no_such_knot".into()), false));
    v
}

pub fn run(cfg: &Cfg) -> i32 {
    let mut rep = Report::new(
        cfg,
        "exploration",
        "case = (program, valid host-call history, position, kind of invalid call): the invalid call is injected after the position; it must not panic, must return Err (for the kinds that must fail), and snapshot, canonical save, all globals and visit counts right after it, every later call of the history (text, tags, choices, results, observer/handler/external callbacks) and the final state must equal the control without the injection. Non-trivial = all; distinct by (program, history prefix, kind).",
        cfg.pick(2000, 40000),
    );
    let nprog = cfg.get_u64("programs", cfg.pick(40, 1500));
    let mut gc = GenCfg::rich();
    gc.externals = true;
    gc.divert_global = true;
    let opts = CmpOpts::default();
    let mut sampled = 0;
    for i in 0..nprog {
        if !cfg.mine(i) {
            continue;
        }
        let c = match generated(cfg.seed, "C09", i, &gc) {
            GenOutcome::Ok(c) => c,
            _ => {
                rep.inconclusive("generated-program-did-not-compile");
                continue;
            }
        };
        for h in 0..2u64 {
            let mut rng = Rng::derive(cfg.seed, "C09-hist", i * 10 + h);
            let hc = HistCfg {
                max_ops: cfg.pick(14, 30),
                flows: h == 1,
                jumps: false,
                cont_max: false,
                set_vars: true,
                stop_at_end: true, bad_calls: false,
                jump_targets: None,
            };
            let host = HostCfg {
                handler: h == 1,
                fallbacks: true,
                fuel: Some(30_000),
                seed: Some(11),
                bind: std::iter::once(("hostfn".to_string(), true))
                    .chain(c.info.externals.keys().map(|k| (k.clone(), true)))
                    .collect(),
                observe: c.info.globals.iter().enumerate().map(|(k, g)| (k, g.clone())).collect(),
            };
            let hist = match std::panic::catch_unwind(std::panic::AssertUnwindSafe(|| gen_history(&c, &host, &mut rng, &hc))) {
                Ok(Ok(h)) => h,
                _ => {
                    rep.inconclusive("control-run-failed");
                    continue;
                }
            };
            if hist.fuel || hist.ops.is_empty() {
                rep.inconclusive("fuel-or-empty");
                continue;
            }
            for b in 0..hist.ops.len() {
                let rec = &hist.recs[b];
                if !rec.snap.errors.is_empty() {
                    break;
                }
                let kinds = invalid_calls(&c, rec.snap.can_continue, rec.snap.choices.len(), &mut rng);
                for (kind, op, must_fail) in kinds {
                    let sit = if rec.snap.can_continue { "mid" } else if rec.snap.choices.is_empty() { "end" } else { "choice" };
                    let sit = format!("{sit}{}", if h == 1 { "+flows" } else { "" });
                    rep.case(Some(fnv(&format!("{}|{:?}|{kind}", c.name, &hist.ops[..=b]))));
                    rep.count(&format!("{kind}@{sit}"));
                    let witness = |what: &str, detail: serde_json::Value| {
                        json!({"program": c.name, "source": c.src, "history": hist.ops.iter().map(|o| o.show()).collect::<Vec<_>>(),
                            "inject_after_op_index": b, "invalid_call": op.show(), "kind": kind, "what": what, "detail": detail,
                            "control_log": recs_json(&hist.recs)})
                    };
                    let r = std::panic::catch_unwind(std::panic::AssertUnwindSafe(|| {
                        inject(&c, &host, &hist.ops, &hist.recs, b, std::slice::from_ref(&op), &opts, true)
                    }));
                    let inj = match r {
                        Err(e) => {
                            let msg = e.downcast_ref::<String>().cloned().or_else(|| e.downcast_ref::<&str>().map(|s| s.to_string())).unwrap_or_default();
                            rep.panic_caught(&format!("rejected-call/{kind}"), witness("panic", json!(msg)));
                            continue;
                        }
                        Ok(Err(e)) => {
                            rep.harness_error(&e);
                            continue;
                        }
                        Ok(Ok(i)) => i,
                    };
                    let res = &inj.injected[0].res;
                    if must_fail && res.is_ok() {
                        rep.violation(&format!("rejected-call/{kind}/returned-ok"), witness("the invalid call returned Ok", json!(format!("{res:?}"))));
                        continue;
                    }
                    if res.is_ok() {
                        rep.count(&format!("accepted-as-noop:{kind}"));
                    }
                    // nothing may have changed
                    let mut a = inj.after.clone();
                    if !inj.injected[0].events.is_empty() {
                        rep.violation(&format!("rejected-call/{kind}/callback-fired"), witness("a callback fired during the rejected call", json!(inj.injected[0].events)));
                        continue;
                    }
                    a.warnings = inj.before.warnings.clone();
                    if a != inj.before || inj.after.warnings != inj.before.warnings {
                        rep.violation(&format!("rejected-call/{kind}/immediate-snapshot"), witness("text/tags/choices/errors changed", json!({"before": inj.before.to_json(), "after": inj.after.to_json()})));
                        continue;
                    }
                    if let Some(d) = cmp_state(&inj.state_before, &inj.state_after, true) {
                        rep.violation(&format!("rejected-call/{kind}/immediate-state"), witness("variables or visit counts changed", d.to_json()));
                        continue;
                    }
                    if inj.save_before != inj.save_after {
                        rep.violation(&format!("rejected-call/{kind}/immediate-save"), witness("the saved state differs before/after the rejected call", json!({"fingerprint_before": inj.fp_before, "fingerprint_after": inj.fp_after})));
                        continue;
                    }
                    if inj.fp_before != inj.fp_after {
                        rep.count("fingerprint-differed(guidance only)");
                    }
                    if let Some(d) = &inj.later {
                        rep.violation(&format!("rejected-call/{kind}/later-{}", d.field), witness("the story diverges later", json!({"divergence": d.to_json(), "fingerprint_before": inj.fp_before, "fingerprint_after": inj.fp_after, "treated_tail": recs_json(&inj.treated_tail)})));
                        continue;
                    }
                    if let Some(d) = cmp_state(&hist.final_state, &inj.final_state, true) {
                        rep.violation(&format!("rejected-call/{kind}/final-state"), witness("final variables or visit counts differ", d.to_json()));
                        continue;
                    }
                    if sampled < 3 && b > 4 {
                        sampled += 1;
                        rep.sample(json!({"program": c.name, "source": c.src.as_ref().map(|s| truncate(s, 1200)),
                            "history": hist.ops.iter().map(|o| o.show()).collect::<Vec<_>>(), "inject_after_op_index": b,
                            "invalid_call": op.show(), "result": format!("{:?}", inj.injected[0].res)}));
                    }
                }
            }
        }
    }
    rep.finish()
}

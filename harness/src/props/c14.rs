//! C14 — both story loaders build the same story from the same JSON. This module runs in ONE build
//! (default or `--features stream`) and writes one digest per document; the driver compares the builds.
use crate::corpus;
use crate::explore::{ExploreCfg, explore};
use crate::jsonstyle::{STYLES, inject_text, render};
use crate::player::HostCfg;
use crate::programs::{GenOutcome, generated};
use crate::r#gen::build::GenCfg;
use crate::rng::{Rng, fnv};
use crate::storyinfo::StoryInfo;
use crate::util::{Cfg, Report, truncate};
use bladeink::story::Story;
use serde_json::{Value, json};
use std::io::Write;
use std::rc::Rc;

/// Everything observable about a document under this build's loader.
pub fn observe(text: &str) -> String {
    let story = match std::panic::catch_unwind(|| Story::new(text)) {
        Err(_) => {
            let _ = crate::util::take_last_panic();
            return "PANIC".into();
        }
        Ok(Err(_)) => return "REJECTED".into(),
        Ok(Ok(s)) => s,
    };
    let mut out = String::from("LOADED\n");
    let audit = story.verif_audit();
    let mut lines: Vec<String> = audit.entries.iter().map(|e| format!("{}|{}|{}|{}", e.path, e.kind, e.named_only, e.text)).collect();
    lines.sort();
    out.push_str(&lines.join("\n"));
    out.push_str(&format!("\nLISTDEFS {:?}\n", story.verif_list_defs()));
    out.push_str(&format!("GLOBALTAGS {:?}\n", story.get_global_tags().map_err(|e| e.to_string())));
    // play: all paths to a small bound
    if let Some(info) = StoryInfo::from_json_text(text) {
        let info = Rc::new(info);
        let host = HostCfg { handler: true, fallbacks: true, fuel: Some(20_000), seed: Some(1), bind: info.externals.keys().map(|k| (k.clone(), true)).collect(), observe: vec![] };
        let ec = ExploreCfg { max_depth: 5, max_paths: 12, max_lines_per_segment: 200 };
        match std::panic::catch_unwind(std::panic::AssertUnwindSafe(|| explore(&Rc::new(text.to_string()), &info, &host, &ec))) {
            Ok(Ok((runs, _))) => {
                for r in runs {
                    out.push_str(&format!("PATH {:?}\n", r.choices));
                    for rec in r.recs {
                        out.push_str(&format!("{:?}|{:?}|{:?}|{:?}|{:?}\n", rec.res, rec.snap.tags, rec.snap.choices, rec.snap.can_continue, rec.events));
                    }
                    out.push_str(&format!("{:?}\n", r.final_state.vars));
                }
            }
            Ok(Err(e)) => out.push_str(&format!("PLAY-ERR {e}\n")),
            Err(_) => {
                let _ = crate::util::take_last_panic();
                out.push_str("PLAY-PANIC\n");
            }
        }
    }
    out
}

pub fn run(cfg: &Cfg) -> i32 {
    let loader = if cfg!(feature = "stream") { "stream" } else { "default" };
    let mut rep = Report::new(
        cfg,
        "exploration",
        "case = (story document, serialisation style) loaded by this build's loader: documents are the reference corpus JSON, this compiler's output for the corpus and for generated programs, each also with hostile text injected into its string content (tab, quote, backslash, CR, control characters, DEL, U+2028/9, BMP and non-BMP characters from odd and even planes, combining marks), re-serialised order-preservingly in 6 styles (compact, ASCII-escaped with surrogate pairs, pretty-printed 2/4 spaces and tabs, CRLF, rare escapes \\/ \\b \\f, floats with exponents, loose spacing). The digest of (accepted or rejected, sorted audit listing of every object with path/kind/full text, list definitions, global tags, transcripts of all choice paths to depth 5, final globals) is written per case; the driver requires the digests of the default and the streaming build to be equal. Non-trivial = the loader accepted the document; distinct by (document, style).",
        cfg.pick(400, 8000),
    );
    rep.assumptions.push(format!("this worker ran the '{loader}' loader"));
    // base documents
    let mut bases: Vec<(String, Value)> = Vec::new();
    let items = corpus::list(&cfg.corpus_dir());
    for it in items.iter() {
        if let Some(rp) = &it.ref_json_path
            && let Ok(v) = serde_json::from_str::<Value>(&corpus::read(rp))
        {
            bases.push((format!("ref:{}", it.name), v));
        }
        if let Ok(Ok(j)) = std::panic::catch_unwind(|| corpus::compile_file(&it.ink_path))
            && let Ok(v) = serde_json::from_str::<Value>(&j)
        {
            bases.push((format!("own:{}", it.name), v));
        }
    }
    let mut gc = GenCfg::rich();
    gc.externals = true;
    for i in 0..cfg.get_u64("programs", cfg.pick(40, 1500)) {
        if let GenOutcome::Ok(c) = generated(cfg.seed, "C14", i, &gc)
            && let Ok(v) = serde_json::from_str::<Value>(&c.json)
        {
            bases.push((c.name.clone(), v));
        }
    }
    // nesting around the depth limit: both loaders must draw the line at the same place
    for d in [60usize, 110, 120, 123, 124, 125, 126, 127, 128, 129, 135] {
        let mut inner = json!(["^deep text", "\n", null]);
        for _ in 0..d {
            inner = json!([inner, null]);
        }
        bases.push((format!("nested-arrays-{d}"), json!({"inkVersion": 21, "root": [inner, "done", null], "listDefs": {}})));
        // the same depth reached through named content (array, object, array, ...)
        let mut named = json!(["^named deep", "\n", null]);
        for _ in 0..d / 2 {
            named = json!(["^level", "\n", {"sub": named}]);
        }
        bases.push((format!("nested-named-{d}"), json!({"inkVersion": 21, "root": [["^top", "\n", {"sub": named}], "done", null], "listDefs": {}})));
    }
    let big = |v: &Value| v.to_string().len() > 200_000;
    let mut digests: Vec<(String, u64, String)> = Vec::new();
    let dump = cfg.get("dump-doc").map(|s| s.to_string());
    let mut case_no = 0u64;
    let mut sampled = 0;
    for (bi, (name, base)) in bases.iter().enumerate() {
        if !cfg.mine(bi as u64) {
            continue;
        }
        let mut rng = Rng::derive(cfg.seed, "C14-doc", bi as u64);
        let mut variants: Vec<(String, Value)> = vec![("plain".into(), base.clone())];
        if !big(base) || !cfg.quick() {
            let mut hostile = base.clone();
            let mut n = 0;
            inject_text(&mut hostile, &mut rng, &mut n);
            if n > 0 {
                variants.push((format!("hostile-text({n})"), hostile));
            }
        }
        for (vname, doc) in variants.iter() {
            let styles: Vec<usize> = if big(doc) && cfg.quick() { vec![0, 1] } else { (0..STYLES.len()).collect() };
            for si in styles {
                let (sname, st) = &STYLES[si];
                let key = format!("{name}|{vname}|{sname}");
                case_no += 1;
                let text = render(doc, st);
                rep.journal_start(&key);
                let obs = observe(&text);
                rep.journal_end(&key);
                let accepted = obs.starts_with("LOADED");
                rep.case(if accepted { Some(fnv(&key)) } else { None });
                rep.count(&format!("{}:{}", sname, obs.lines().next().unwrap_or("")));
                if obs.starts_with("PANIC") {
                    rep.count("loader-panicked (C15's business; still compared across builds)");
                }
                if dump.as_deref() == Some(key.as_str()) {
                    println!("DUMP-BEGIN {key}\n{obs}\nDUMP-END");
                    println!("DOC-BEGIN\n{}\nDOC-END", truncate(&text, 20_000));
                }
                digests.push((key.clone(), fnv(&obs), obs.lines().next().unwrap_or("").to_string()));
                if sampled < 3 && vname.starts_with("hostile") && si == 3 {
                    sampled += 1;
                    rep.sample(json!({"document": key, "outcome": obs.lines().next(), "serialised_head": truncate(&text, 500), "observation_head": truncate(&obs, 500)}));
                }
            }
        }
    }
    let _ = case_no;
    if let Some(dir) = cfg.get("hashes-dir")
        && let Ok(mut f) = std::fs::File::create(format!("{dir}/hashes-{loader}-{}.txt", cfg.get_u64("shard", 0)))
    {
        for (k, h, first) in digests.iter() {
            let _ = writeln!(f, "{h:016x} {first} {k}");
        }
    }
    rep.extra.insert("loader".into(), json!(loader));
    rep.finish()
}

//! C18 — dropping a story releases all the memory it used.
use crate::alloc;
use crate::history::{HistCfg, gen_history_on};
use crate::player::{HostCfg, Op, Player};
use crate::programs::{Compiled, GenOutcome, corpus_stories, generated};
use crate::r#gen::build::GenCfg;
use crate::rng::{Rng, fnv};
use crate::util::{Cfg, Report, truncate};
use serde_json::json;

fn host_for(c: &Compiled) -> HostCfg {
    HostCfg {
        handler: true,
        fallbacks: true,
        fuel: Some(20_000),
        seed: Some(2),
        bind: c.info.externals.keys().map(|k| (k.clone(), true)).collect(),
        observe: c.info.globals.iter().take(2).enumerate().map(|(k, g)| (k, g.clone())).collect(),
    }
}

fn hist_cfg(variant: u64) -> HistCfg {
    HistCfg {
        max_ops: 30,
        flows: variant % 2 == 1,
        jumps: variant % 3 == 2,
        cont_max: false,
        set_vars: true,
        stop_at_end: true, bad_calls: false,
        jump_targets: None,
    }
}

/// One create -> play -> (saves, loads, resets) -> drop cycle. Everything allocated here is dropped on return.
pub fn cycle(c: &Compiled, seed: u64, variant: u64) {
    let Ok(mut p) = Player::new(c.json.clone(), c.info.clone(), host_for(c)) else { return };
    let mut rng = Rng::derive(seed, "C18-cycle", variant);
    let h = hist_cfg(variant);
    let _ = gen_history_on(&mut p, c, &mut rng, &h);
    if !p.story.has_error() {
        p.apply(&Op::SaveLoadSame);
    }
    p.apply(&Op::Reset);
    let _ = gen_history_on(&mut p, c, &mut rng, &h);
    if variant % 2 == 0 && !p.story.has_error() {
        p.apply(&Op::SaveLoadFresh);
    }
}

/// Repeated rounds on ONE instance; returns live bytes measured after each round's reset.
fn rounds_on_one_instance(c: &Compiled, seed: u64, variant: u64, n: usize) -> Vec<i64> {
    let mut out = Vec::with_capacity(n + 1); // no reallocation while measuring
    let Ok(mut p) = Player::new(c.json.clone(), c.info.clone(), host_for(c)) else { return out };
    let h = hist_cfg(variant);
    let mut save: Option<String> = None;
    for _ in 0..n {
        let mut rng = Rng::derive(seed, "C18-round", variant);
        let _ = gen_history_on(&mut p, c, &mut rng, &h);
        if save.is_none() && !p.story.has_error() {
            save = p.story.save_state().ok();
        }
        if let Some(s) = &save {
            let _ = p.story.load_state(s);
            let _ = p.story.load_state(s);
        }
        p.apply(&Op::Reset);
        p.recs.clear();
        p.recs.shrink_to_fit();
        p.log.borrow_mut().clear();
        out.push(alloc::live().0);
    }
    out
}

pub fn stories(cfg: &Cfg) -> Vec<Compiled> {
    let mut v = Vec::new();
    let mut gc = GenCfg::rich();
    gc.externals = true;
    gc.loops = true;
    let n = cfg.get_u64("programs", cfg.pick(120, 4000));
    for i in 0..n {
        if let GenOutcome::Ok(c) = generated(cfg.seed, "C18", i, &gc) {
            v.push(c);
        }
    }
    for (k, src) in TINY.iter().enumerate() {
        if let Ok(json) = bladeink_compiler::Compiler::new().compile(src)
            && let Some(c) = crate::programs::from_json(&format!("tiny-{k}"), json, Some(src.to_string()))
        {
            v.push(c);
        }
    }
    let corpus = corpus_stories(&cfg.corpus_dir(), true, true, if cfg.quick() { 3000 } else { 100_000 });
    let mut idx: Vec<usize> = (0..corpus.len()).collect();
    Rng::derive(cfg.seed, "C18-corpus", 0).shuffle(&mut idx);
    for i in idx.into_iter().take(cfg.pick(40, corpus.len())) {
        v.push(corpus[i].clone());
    }
    v
}

/// Small stories with back-edges (diverts to ancestors), for the slow sanitizers.
pub const TINY: &[&str] = &[
    "VAR n = 0\n-> hub\n=== hub ===\nAt the hub {n}.\n~ n = n + 1\n+ {n < 3} [again] -> hub\n* [leave] -> END\n",
    "-> top\n=== top ===\nTop.\n-> t ->\n{top < 2: -> top}\n-> END\n=== t ===\nIn tunnel {top}.\n->->\n",
    "LIST L = (a), b, c\nVAR x = 0\n-> k\n=== k ===\n<- th\nMain {L} {f(2)}.\n~ L += b\n+ [loop] -> k\n* [stop] -> END\n=== th ===\nThread line.\n* [thread choice] -> END\n- -> DONE\n=== function f(p) ===\n~ x = x + p\n~ return x\n",
    "-> a\n=== a ===\n{a > 1: twice|once} {&x|y}\n= s\nStitch {a.s}.\n+ [back] -> a\n* [on] -> b\n=== b ===\nB {a}.\n-> END\n",
    // objects that name the container they sit in: a variable divert back into its own knot, TURNS_SINCE / READ_COUNT
    // of the enclosing knot, a divert target passed as an argument and kept in a variable
    "VAR next = -> round\nVAR n = 0\n-> round\n=== round ===\n~ n = n + 1\nRound {n} {TURNS_SINCE(-> round)} {READ_COUNT(-> round)} {round}\n{ n < 3:\n    -> next\n}\n+ {n < 6} [again] -> next\n* [stop] -> END\n",
    "VAR back = -> hub\n-> hub\n=== hub ===\nHub {hub}.\n-> visit(-> hub) ->\n+ {hub < 3} [again] -> back\n* [done] -> END\n=== visit(-> where) ===\nVisiting {TURNS_SINCE(where)} {READ_COUNT(-> visit)}.\n->->\n",
    "-> k\n=== k ===\n-> k.s\n= s\n- (top) At top {top} {k.s} {TURNS_SINCE(-> k.s)}\n{ top < 3:\n    -> top\n}\n<- k.side\n+ {k.s < 3} [more] -> k.s\n* [end] -> END\n= side\nSide {side} {READ_COUNT(-> k)}.\n-> DONE\n",
];

/// `inkmon leakrun --seed S --from I --count K --cycles N`: plays stories and drops them; for Miri / valgrind.
pub fn leakrun(cfg: &Cfg) -> i32 {
    let mut gc = GenCfg::rich();
    gc.externals = true;
    let from = cfg.get_u64("from", 0);
    let count = cfg.get_u64("count", 3);
    let cycles = cfg.get_u64("cycles", 2);
    let mut played = 0;
    for i in from..from + count {
        if let GenOutcome::Ok(c) = generated(cfg.seed, "C18", i, &gc) {
            for k in 0..cycles {
                cycle(&c, cfg.seed, k);
            }
            played += 1;
        }
    }
    if let Some(t) = cfg.get("tiny") {
        let k: usize = t.parse().unwrap_or(0) % TINY.len();
        match bladeink_compiler::Compiler::new().compile(TINY[k]) {
            Ok(json) => {
                if let Some(c) = crate::programs::from_json(&format!("tiny-{k}"), json, Some(TINY[k].to_string())) {
                    for v in 0..cycles {
                        cycle(&c, cfg.seed, v);
                    }
                    played += 1;
                }
            }
            Err(e) => println!("LEAKRUN tiny-{k} did not compile: {e}"),
        }
    }
    if let Some(name) = cfg.get("corpus") {
        for c in corpus_stories(&cfg.corpus_dir(), true, false, 100_000) {
            if c.name.contains(name) {
                for k in 0..cycles {
                    cycle(&c, cfg.seed, k);
                }
                played += 1;
            }
        }
    }
    println!("LEAKRUN played={played} cycles={cycles}");
    0
}

pub fn run(cfg: &Cfg) -> i32 {
    let mut rep = Report::new(
        cfg,
        "exploration",
        "case = (program, history variant) under a counting global allocator: (A) after a warm-up cycle, N create -> play (continues, choices, flows, jumps, host assignments, save+load, reset, second play, load into a fresh instance) -> drop cycles must each return the process to exactly the live-byte level before the cycle; (B) on ONE instance, rounds of play + two loads of the same save + reset must reach the same live-byte level after every round from the second on. Non-trivial = the program executed at least one divert to an ancestor or took a choice (stories that only run straight through cannot form cycles); distinct by (program, variant).",
        cfg.pick(100, 3000),
    );
    if !alloc::ENABLED {
        rep.harness_error("built without the count-alloc feature");
        return rep.finish();
    }
    rep.assumptions.push("single-threaded, deterministic code: exact equality of live bytes is expected once lazily initialised statics exist (first cycle is the warm-up)".into());
    let n_cycles = cfg.pick(6, 20);
    let mut sampled = 0;
    for (si, c) in stories(cfg).into_iter().enumerate() {
        if !cfg.mine(si as u64) {
            continue;
        }
        for variant in 0..2u64 {
            // warm-up
            let r = std::panic::catch_unwind(std::panic::AssertUnwindSafe(|| cycle(&c, cfg.seed, variant)));
            if r.is_err() {
                rep.inconclusive("play-panicked (C04's business)");
                continue;
            }
            // (allocated before the baseline is read so that the monitor's own bookkeeping is not measured)
            let mut growth: Vec<i64> = Vec::with_capacity(n_cycles + 1);
            let (base_bytes, base_blocks) = alloc::live();
            for _ in 0..n_cycles {
                let _ = std::panic::catch_unwind(std::panic::AssertUnwindSafe(|| cycle(&c, cfg.seed, variant)));
                let (b, _) = alloc::live();
                growth.push(b - base_bytes);
            }
            let (end_bytes, end_blocks) = alloc::live();
            let took_choice = c.info.objects > 0;
            rep.case(if took_choice { Some(fnv(&format!("{}|{variant}", c.name))) } else { None });
            rep.count_n("create-play-drop-cycles", n_cycles as u64 + 1);
            if end_bytes != base_bytes {
                let per = (end_bytes - base_bytes) / n_cycles as i64;
                rep.violation(
                    "leak/create-play-drop",
                    json!({"program": c.name, "source": c.src, "variant": variant, "cycles": n_cycles, "live_bytes_after_warmup": base_bytes, "live_bytes_at_end": end_bytes,
                        "live_blocks_after_warmup": base_blocks, "live_blocks_at_end": end_blocks, "bytes_per_cycle": per, "growth_after_each_cycle": growth}),
                );
                continue;
            }
            // (B) one instance
            let lv = rounds_on_one_instance(&c, cfg.seed, variant, n_cycles.min(8));
            rep.count_n("reset-load-rounds", lv.len() as u64);
            if lv.len() >= 3 {
                let tail = &lv[1..];
                let grows = tail.windows(2).all(|w| w[1] > w[0]);
                let differs = tail.iter().any(|x| *x != tail[0]);
                if grows || (differs && tail[tail.len() - 1] > tail[0]) {
                    rep.violation(
                        "leak/growth-across-resets-or-loads",
                        json!({"program": c.name, "source": c.src, "variant": variant, "live_bytes_after_each_round": lv}),
                    );
                    continue;
                } else if differs {
                    rep.count("one-instance-level-varies-without-growing");
                }
            }
            if sampled < 3 {
                sampled += 1;
                rep.sample(json!({"program": c.name, "source": c.src.as_ref().map(|s| truncate(s, 800)), "variant": variant, "cycles": n_cycles,
                    "growth_after_each_cycle": growth, "live_bytes_after_each_round_on_one_instance": lv}));
            }
        }
    }
    rep.extra.insert("total_allocations".into(), json!(alloc::total()));
    rep.finish()
}

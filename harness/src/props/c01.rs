//! C01 — compiled stories play exactly as the Ink language defines: generated programs are compiled and
//! played along every choice path (bounded), and every path is compared with the source-level reference
//! interpreter (`refint::interp`), which executes the program's meaning sequentially, without look-ahead.
use crate::explore::{ExploreCfg, PathRun, explore};
use crate::player::HostCfg;
use crate::programs::from_json;
use crate::refint::interp::{Refint, Segment, Status};
use crate::refint::ir::flatten;
use crate::r#gen::ast::{KnotKind, Program};
use crate::r#gen::build::{GenCfg, generate};
use crate::r#gen::render;
use crate::rng::{Rng, fnv};
use crate::util::{Cfg, Report, truncate};
use serde_json::{Value, json};
use std::rc::Rc;

/// generator profiles, from the plainest to everything the interpreter models
pub fn profiles() -> Vec<(&'static str, GenCfg)> {
    let mut base = GenCfg::core();
    base.choice_count = true;
    base.plain_choice_text = true;
    base.no_glue_with_tags = true;
    base.choice_tags = true;
    base.layout_variants = true;
    let mut weave = base.clone();
    weave.tunnels = false;
    weave.functions = false;
    weave.threads = false;
    weave.fn_text = false;
    let mut fns = base.clone();
    fns.tunnels = false;
    fns.threads = false;
    fns.nested_functions = true;
    let mut tun = base.clone();
    tun.functions = false;
    tun.fn_text = false;
    tun.threads = false;
    let mut thr = base.clone();
    thr.functions = false;
    thr.fn_text = false;
    thr.tunnels = false;
    thr.thread_boost = true;
    thr.thread_fallbacks = true;
    let mut all = base.clone();
    all.thread_boost = true;
    all.nested_functions = true;
    let mut deep = base.clone();
    deep.nested_depth = 3;
    deep.run_len = (0, 3);
    deep.flow_knots = (3, 6);
    deep.allow_runout = true;
    vec![("weave", weave), ("functions", fns), ("tunnels", tun), ("threads", thr), ("all", all), ("deep", deep)]
}

fn show_global(v: &crate::refint::eval::V) -> String {
    use crate::refint::eval::V;
    match v {
        V::Int(i) => format!("int:{i}"),
        V::Bool(b) => format!("bool:{b}"),
        V::Str(s) => format!("str:{s:?}"),
        V::Float(f) => format!("float:{f:?}"),
        V::List(_) => "list".into(),
    }
}

/// what the engine showed, cut into segments at the choices taken
struct EngineView {
    segments: Vec<(Vec<(String, Vec<String>)>, Vec<String>, Vec<String>, Vec<Vec<String>>)>,
}

fn engine_view(run: &PathRun) -> EngineView {
    let mut segments = Vec::new();
    let mut lines: Vec<(String, Vec<String>)> = Vec::new();
    let mut errors: Vec<String> = Vec::new();
    let mut choices: Vec<String> = Vec::new();
    let mut ctags: Vec<Vec<String>> = Vec::new();
    for r in run.recs.iter() {
        if r.op.starts_with("Choose") {
            segments.push((std::mem::take(&mut lines), std::mem::take(&mut choices), std::mem::take(&mut errors), std::mem::take(&mut ctags)));
            if let Err((_, m)) = &r.res {
                errors.push(format!("choose: {m}"));
            }
            continue;
        }
        match &r.res {
            Ok(t) => {
                let text = t.trim_end_matches('\n').to_string();
                if !text.is_empty() || !r.snap.tags.is_empty() {
                    lines.push((text, r.snap.tags.clone()));
                }
            }
            Err((_, m)) => errors.push(m.clone()),
        }
        for e in r.snap.errors.iter() {
            if !errors.contains(e) {
                errors.push(e.clone());
            }
        }
        choices = r.snap.choices.iter().map(|c| c.0.clone()).collect();
        ctags = r.snap.choices.iter().map(|c| c.1.clone()).collect();
    }
    segments.push((lines, choices, errors, ctags));
    EngineView { segments }
}

fn seg_json(s: &Segment) -> Value {
    json!({"lines": s.lines, "choices": s.choices, "choice_tags": s.choice_tags, "status": format!("{:?}", s.status)})
}

pub struct Verdict {
    /// how the reference interpreter says the path ends
    pub ending: String,
    pub aspect: Option<String>,
    pub detail: Value,
    pub unsupported: Option<String>,
    pub seen: std::collections::BTreeMap<&'static str, u64>,
}

/// compares one played path with the reference interpreter
pub fn compare_path(p: &Program, ir: &Rc<crate::refint::ir::Ir>, run: &PathRun, counted: &[String]) -> Verdict {
    let mut ri = Refint::new(p, ir.clone(), 200_000);
    let ev = engine_view(run);
    let mut expected: Vec<Segment> = Vec::new();
    let mut verdict = Verdict { ending: String::new(), aspect: None, detail: Value::Null, unsupported: None, seen: Default::default() };
    for (si, (elines, echoices, eerrors, ectags)) in ev.segments.iter().enumerate() {
        let seg = ri.segment();
        verdict.ending = match &seg.status {
            Status::Fault(_) => "Fault".to_string(),
            other => format!("{other:?}"),
        };
        expected.push(seg.clone());
        match &seg.status {
            Status::Unsupported(w) => {
                verdict.unsupported = Some(format!("unsupported: {w}"));
                return verdict;
            }
            Status::Fuel => {
                verdict.unsupported = Some("reference interpreter ran out of fuel".into());
                return verdict;
            }
            _ => {}
        }
        let found: std::cell::RefCell<Option<(String, Value)>> = std::cell::RefCell::new(None);
        let diff = |aspect: &str, what: Value| {
            let mut f = found.borrow_mut();
            if f.is_none() {
                *f = Some((aspect.to_string(), json!({"segment": si, "what": what, "expected_segment": seg_json(&seg),
                    "engine_segment": {"lines": elines, "choices": echoices, "errors": eerrors}})));
            }
        };
        let expect_error = matches!(seg.status, Status::RanOut | Status::Fault(_));
        if expect_error != !eerrors.is_empty() {
            if expect_error {
                diff("missing-error", json!("the language rules make this an error; the engine reported none"));
            } else {
                diff("unexpected-error", json!(eerrors));
            }
        }
        if !expect_error {
            let etexts: Vec<&String> = elines.iter().map(|l| &l.0).collect();
            let rtexts: Vec<&String> = seg.lines.iter().map(|l| &l.0).collect();
            if etexts != rtexts {
                let k = etexts.iter().zip(rtexts.iter()).position(|(a, b)| a != b).unwrap_or(etexts.len().min(rtexts.len()));
                diff("lines", json!({"first_difference_at_line": k, "expected": rtexts.get(k), "engine": etexts.get(k)}));
            } else if *elines != seg.lines {
                diff("tags", json!({"expected": seg.lines, "engine": elines}));
            }
            if *echoices != seg.choices {
                diff("choices", json!({"expected": seg.choices, "engine": echoices}));
            } else if *ectags != seg.choice_tags {
                diff("choice-tags", json!({"choices": seg.choices, "expected": seg.choice_tags, "engine": ectags}));
            }
        }
        if found.borrow().is_none() && si < run.choices.len() && si + 1 < ev.segments.len() {
            if !ri.choose(run.choices[si]) {
                diff("choices", json!("the reference interpreter offers fewer choices"));
            }
        } else if found.borrow().is_none() {
            // last segment: end status
            let engine_open = run.open;
            let expect_open = seg.choices.len();
            if engine_open != expect_open && !expect_error {
                diff("end-status", json!({"expected_open_choices": expect_open, "engine_open_choices": engine_open, "expected_status": format!("{:?}", seg.status)}));
            }
        }
        if let Some((a, d)) = found.into_inner() {
            verdict.aspect = Some(a);
            verdict.detail = d;
            break;
        }
    }
    if verdict.aspect.is_none() {
        // final globals and visit counts
        let mut exp_vars: Vec<(String, String)> = ri.globals.iter().map(|(k, v)| (k.clone(), show_global(v))).collect();
        exp_vars.sort();
        let mut eng_vars = run.final_state.vars.clone();
        eng_vars.sort();
        if exp_vars != eng_vars {
            let d: Vec<Value> = exp_vars.iter().zip(eng_vars.iter()).filter(|(a, b)| a != b).map(|(a, b)| json!({"expected": a, "engine": b})).collect();
            verdict.aspect = Some("globals".into());
            verdict.detail = json!({"differences": d});
        } else {
            let mut d = Vec::new();
            for name in counted {
                let e = *ri.visits.get(name).unwrap_or(&0);
                if let Some((_, n)) = run.final_state.visits.iter().find(|v| &v.0 == name)
                    && *n != e
                {
                    d.push(json!({"path": name, "expected": e, "engine": n}));
                }
            }
            if !d.is_empty() {
                verdict.aspect = Some("visit-counts".into());
                verdict.detail = json!({"differences": d});
            }
        }
    }
    if verdict.aspect.is_some()
        && let Some(o) = verdict.detail.as_object_mut()
    {
        o.insert("expected_transcript".into(), Value::Array(expected.iter().map(seg_json).collect()));
    }
    verdict.seen = ri.seen.clone();
    verdict
}

pub fn compile(src: &str, count_all: bool) -> Result<String, String> {
    let opts = bladeink_compiler::CompilerOptions { count_all_visits: count_all, source_filename: None };
    match std::panic::catch_unwind(|| bladeink_compiler::Compiler::with_options(opts).compile(src)) {
        Err(_) => Err("compiler panicked".into()),
        Ok(Err(e)) => Err(e.to_string()),
        Ok(Ok(j)) => Ok(j),
    }
}

/// names whose counts are compared: knots and stitches
fn counted_names(p: &Program) -> Vec<String> {
    let mut v = Vec::new();
    for k in p.knots.iter() {
        if k.kind == KnotKind::Function && k.name.starts_with("ext") {
            continue;
        }
        v.push(k.name.clone());
        for s in k.stitches.iter() {
            v.push(format!("{}.{}", k.name, s.name));
        }
    }
    v
}

pub fn check_program(rep: &mut Report, name: &str, p: &Program, count_all: bool, depth: usize, max_paths: usize, sig_prefix: &str) {
    let src = render::program(p);
    let json = match compile(&src, count_all) {
        Ok(j) => j,
        Err(e) => {
            rep.inconclusive("generated-program-did-not-compile");
            rep.harness_error(&format!("{name}: generated program did not compile: {}", truncate(&e, 200)));
            return;
        }
    };
    let Some(c) = from_json(name, json, Some(src.clone())) else {
        rep.inconclusive("compiler-output-unreadable");
        return;
    };
    let ir = Rc::new(flatten(p));
    let host = HostCfg { handler: false, fallbacks: false, fuel: Some(60_000), seed: Some(5), bind: vec![], observe: vec![] };
    let ecfg = ExploreCfg { max_depth: depth, max_paths, max_lines_per_segment: 400 };
    let (runs, exhaustive) = match explore(&c.json, &c.info, &host, &ecfg) {
        Ok(x) => x,
        Err(e) => {
            rep.violation("story-not-loadable", json!({"program": name, "source": src, "error": e}));
            return;
        }
    };
    rep.count(if exhaustive { "programs-explored-exhaustively" } else { "programs-explored-to-bounds" });
    let names: Vec<String> = counted_names(p).into_iter().filter(|n| c.info.counted.contains(n)).collect();
    for run in runs.iter() {
        if run.fuel {
            rep.inconclusive("engine-step-fuel");
            continue;
        }
        let v = compare_path(p, &ir, run, &names);
        if let Some(u) = v.unsupported {
            rep.inconclusive(&u);
            continue;
        }
        let nsegs = run.choices.len() + 1;
        rep.case(if nsegs > 1 || run.recs.len() > 2 { Some(fnv(&format!("{name}|{:?}", run.choices))) } else { None });
        rep.count_n("segments-compared", nsegs as u64);
        rep.count(&format!("path-ends:{}", v.ending));
        rep.count_n("lines-compared", run.recs.iter().filter(|r| r.res.is_ok() && !r.op.starts_with("Choose")).count() as u64);
        rep.count_n("visit-counts-compared", names.len() as u64);
        for (k, n) in v.seen.iter() {
            rep.count_n(&format!("saw:{k}"), *n);
        }
        if nsegs > 2 && v.aspect.is_none() {
            let lines: Vec<&String> = run.recs.iter().filter_map(|r| r.res.as_ref().ok()).collect();
            rep.sample(json!({"program": name, "choices_taken": run.choices, "lines_compared": lines.len(),
                "first_lines": lines.iter().take(3).collect::<Vec<_>>(), "visit_counts_compared": names, "verdict": "equal to the reference interpreter"}));
        }
        if let Some(a) = v.aspect {
            rep.count(&format!("diff:{a}"));
            if let Some(path) = rep.cfg.get("dump") {
                use std::io::Write;
                if let Ok(mut f) = std::fs::OpenOptions::new().create(true).append(true).open(path) {
                    let _ = writeln!(f, "{}", json!({"program": name, "aspect": a, "choices_taken": run.choices, "difference": v.detail, "source": src}));
                }
            }
            rep.violation(
                &format!("{sig_prefix}differs-from-language-rules/{a}"),
                json!({"program": name, "count_all_visits": count_all, "choices_taken": run.choices, "difference": v.detail, "source": src}),
            );
        }
    }
}

/// Hand-written programs for layouts the generator does not write (each has its own signature prefix).
pub fn probes() -> Vec<(&'static str, Program)> {
    use crate::r#gen::ast::{Choice, Inline, Knot, Stmt, Target};
    let t = |s: &str| Inline::Text(s.to_string());
    let choice = |start: Vec<Inline>, only: Option<Vec<Inline>>, end: Vec<Inline>, body: Vec<Stmt>| {
        Stmt::Choice(Choice { sticky: false, label: None, conds: vec![], start, choice_only: only, end, divert: None, body })
    };
    let line = |s: &str| Stmt::Line(vec![Inline::Text(s.to_string())], None);
    let knot = |name: &str, body: Vec<Stmt>| Knot { name: name.into(), kind: KnotKind::Flow, params: vec![], body, stitches: vec![] };
    let prog = |body: Vec<Stmt>| Program { globals: vec![], lists: vec![], externals: vec![], root: vec![Stmt::Divert(Target::Named("k0".into()))], knots: vec![knot("k0", body)] };
    vec![
        // no spaces around the brackets: the parts are joined exactly as written
        (
            "tight-brackets",
            prog(vec![
                line("first line"),
                choice(vec![t("alpha")], Some(vec![]), vec![t("beta")], vec![line("body one")]),
                choice(vec![t("gamma")], Some(vec![t("delta")]), vec![t("epsilon")], vec![line("body two")]),
                Stmt::Gather(None, vec![t("gathered")], None),
                Stmt::Divert(Target::End),
            ]),
        ),
        // the same with the usual spacing (control: must agree)
        (
            "spaced-brackets",
            prog(vec![
                line("first line"),
                choice(vec![t("alpha ")], Some(vec![]), vec![t("beta")], vec![line("body one")]),
                choice(vec![t("gamma ")], Some(vec![t("delta")]), vec![t(" epsilon")], vec![line("body two")]),
                Stmt::Gather(None, vec![t("gathered")], None),
                Stmt::Divert(Target::End),
            ]),
        ),
    ]
}

pub fn run(cfg: &Cfg) -> i32 {
    let mut rep = Report::new(
        cfg,
        "exploration",
        "case = (generated program, one choice path): the program (an AST drawn by the seeded generator over core Ink: knots, stitches, diverts, weave choices and gathers with once-only/sticky/conditional/fallback/labelled forms and [bracket] text, inline and block conditionals, stopping/cycle/once sequences inline and multi-line, VAR/temp int-bool-string arithmetic, read counts, TURNS_SINCE, tunnels with parameters, functions with return values and text, threads, glue, tags) is rendered to source, compiled with the repository's compiler (alternating count_all_visits) and played with the repository's runtime along every choice path up to the depth/path bounds; each path is compared with an independent source-level reference interpreter (sequential, no look-ahead): text of every line, tags per line, offered choices (text, order), errors/end status, final values of all globals, visit counts of all counted knots and stitches. Non-trivial = a path with at least one choice taken or more than two lines; distinct by (program, path).",
        cfg.pick(1500, 200000),
    );
    let profs = profiles();
    let nprog = cfg.get_u64("programs", cfg.pick(360, 32000));
    let depth = cfg.get_u64("depth", cfg.pick(5, 8)) as usize;
    let max_paths = cfg.get_u64("paths", cfg.pick(40, 250)) as usize;
    if cfg.mine(0) {
        for (pname, p) in probes() {
            let name = format!("probe-{pname}");
            rep.journal_start(&name);
            rep.count("probes");
            for count_all in [false, true] {
                check_program(&mut rep, &name, &p, count_all, depth, max_paths, &format!("probe:{pname}/"));
            }
            rep.journal_end(&name);
        }
    }
    for i in 0..nprog {
        if !cfg.mine(i) {
            continue;
        }
        let (pname, gc) = &profs[(i % profs.len() as u64) as usize];
        let mut rng = Rng::derive(cfg.seed, "C01", i);
        let (p, _meta) = generate(gc, &mut rng);
        let name = format!("gen-C01-{pname}-s{}-{i}", cfg.seed);
        rep.journal_start(&name);
        rep.count(&format!("profile:{pname}"));
        let r = std::panic::catch_unwind(std::panic::AssertUnwindSafe(|| check_program(&mut rep, &name, &p, i % 2 == 0, depth, max_paths, "")));
        if r.is_err() {
            rep.panic_caught("panic", json!({"program": name, "source": render::program(&p)}));
        }
        rep.journal_end(&name);
    }
    rep.finish()
}

// ---------------------------------------------------------------------------------------------------------
// triage helper: shrink a generated program while it keeps differing from the reference interpreter

/// first difference of a program: (aspect, choices, detail); None = agrees (or does not compile / unsupported)
pub fn first_diff(p: &Program, count_all: bool, depth: usize, max_paths: usize) -> Option<(String, Vec<usize>, Value)> {
    let src = render::program(p);
    let json = compile(&src, count_all).ok()?;
    let c = from_json("shrink", json, Some(src))?;
    let ir = Rc::new(flatten(p));
    let host = HostCfg { handler: false, fallbacks: false, fuel: Some(60_000), seed: Some(5), bind: vec![], observe: vec![] };
    let ecfg = ExploreCfg { max_depth: depth, max_paths, max_lines_per_segment: 400 };
    let (runs, _) = explore(&c.json, &c.info, &host, &ecfg).ok()?;
    let names: Vec<String> = counted_names(p).into_iter().filter(|n| c.info.counted.contains(n)).collect();
    for run in runs.iter() {
        if run.fuel {
            continue;
        }
        let v = compare_path(p, &ir, run, &names);
        if v.unsupported.is_some() {
            return None;
        }
        if let Some(a) = v.aspect {
            return Some((a, run.choices.clone(), v.detail));
        }
    }
    None
}

fn count_stmts(b: &[crate::r#gen::ast::Stmt]) -> usize {
    use crate::r#gen::ast::Stmt;
    let mut n = 0;
    for s in b {
        n += 1;
        match s {
            Stmt::Choice(c) => n += count_stmts(&c.body),
            Stmt::If(br, els) => {
                for (_, b) in br {
                    n += count_stmts(b);
                }
                if let Some(b) = els {
                    n += count_stmts(b);
                }
            }
            Stmt::SeqBlock(_, alts) => {
                for a in alts {
                    n += count_stmts(a);
                }
            }
            _ => {}
        }
    }
    n
}

/// removes (mode 0) or simplifies (mode 1: keep only the first inline piece / drop conditions) the n-th statement
fn edit_nth(b: &mut Vec<crate::r#gen::ast::Stmt>, n: &mut usize, mode: u8) -> bool {
    use crate::r#gen::ast::{Inline, Stmt};
    let mut i = 0;
    while i < b.len() {
        if *n == 0 {
            if mode == 0 {
                b.remove(i);
                return true;
            }
            return match &mut b[i] {
                Stmt::Line(xs, _) | Stmt::Gather(_, xs, _) if xs.len() > 1 => {
                    // drop the last piece
                    xs.pop();
                    true
                }
                Stmt::Choice(c) if !c.conds.is_empty() => {
                    c.conds.clear();
                    true
                }
                Stmt::If(br, els) if br.len() > 1 || els.is_some() => {
                    if els.is_some() {
                        *els = None;
                    } else {
                        br.pop();
                    }
                    true
                }
                Stmt::SeqBlock(_, alts) if alts.len() > 1 => {
                    alts.pop();
                    true
                }
                Stmt::Line(xs, _) if matches!(xs.first(), Some(Inline::Glue)) => {
                    xs.remove(0);
                    true
                }
                _ => false,
            };
        }
        *n -= 1;
        let done = match &mut b[i] {
            Stmt::Choice(c) => edit_nth(&mut c.body, n, mode),
            Stmt::If(br, els) => {
                let mut d = false;
                for (_, bb) in br.iter_mut() {
                    if !d {
                        d = edit_nth(bb, n, mode);
                    }
                }
                if !d && let Some(bb) = els {
                    d = edit_nth(bb, n, mode);
                }
                d
            }
            Stmt::SeqBlock(_, alts) => {
                let mut d = false;
                for a in alts.iter_mut() {
                    if !d {
                        d = edit_nth(a, n, mode);
                    }
                }
                d
            }
            _ => false,
        };
        if done {
            return true;
        }
        i += 1;
    }
    false
}

fn total_stmts(p: &Program) -> usize {
    let mut n = count_stmts(&p.root);
    for k in p.knots.iter() {
        n += count_stmts(&k.body);
        for s in k.stitches.iter() {
            n += count_stmts(&s.body);
        }
    }
    n
}

fn edit_program(p: &Program, mut n: usize, mode: u8) -> Option<Program> {
    let mut q = p.clone();
    if edit_nth(&mut q.root, &mut n, mode) {
        return Some(q);
    }
    for k in q.knots.iter_mut() {
        if edit_nth(&mut k.body, &mut n, mode) {
            return Some(q);
        }
        for s in k.stitches.iter_mut() {
            if edit_nth(&mut s.body, &mut n, mode) {
                return Some(q);
            }
        }
    }
    None
}

pub fn shrink(p: &Program, count_all: bool, depth: usize, paths: usize) -> Option<(Program, String, Vec<usize>, Value)> {
    let (aspect, _, _) = first_diff(p, count_all, depth, paths)?;
    let mut cur = p.clone();
    let same = |q: &Program| first_diff(q, count_all, depth, paths).is_some_and(|d| d.0 == aspect);
    loop {
        let mut progressed = false;
        // whole knots and stitches first
        let mut ki = 0;
        while ki < cur.knots.len() {
            let mut q = cur.clone();
            q.knots.remove(ki);
            if same(&q) {
                cur = q;
                progressed = true;
                continue;
            }
            let mut si = 0;
            while si < cur.knots[ki].stitches.len() {
                let mut q = cur.clone();
                q.knots[ki].stitches.remove(si);
                if same(&q) {
                    cur = q;
                    progressed = true;
                } else {
                    si += 1;
                }
            }
            ki += 1;
        }
        for mode in [0u8, 1u8] {
            let mut n = 0;
            while n < total_stmts(&cur) {
                match edit_program(&cur, n, mode) {
                    Some(q) if same(&q) => {
                        cur = q;
                        progressed = true;
                    }
                    _ => n += 1,
                }
            }
        }
        let mut gi = 0;
        while gi < cur.globals.len() {
            let mut q = cur.clone();
            q.globals.remove(gi);
            if same(&q) {
                cur = q;
                progressed = true;
            } else {
                gi += 1;
            }
        }
        if !progressed {
            break;
        }
    }
    let (a, ch, d) = first_diff(&cur, count_all, depth, paths)?;
    Some((cur, a, ch, d))
}

/// `inkmon c01min --seed S --index I [--depth D] [--paths P]`: regenerate the program, shrink it, print it
pub fn shrink_cmd(cfg: &Cfg) -> i32 {
    let profs = profiles();
    let i = cfg.get_u64("index", 0);
    let (pname, gc) = &profs[(i % profs.len() as u64) as usize];
    let mut rng = Rng::derive(cfg.seed, "C01", i);
    let (p, _) = generate(gc, &mut rng);
    let depth = cfg.get_u64("depth", 5) as usize;
    let paths = cfg.get_u64("paths", 40) as usize;
    if cfg.get("print").is_some() {
        println!("{}", render::program(&p));
        return 0;
    }
    match shrink(&p, i % 2 == 0, depth, paths) {
        None => {
            println!("program {pname} #{i}: no difference");
            0
        }
        Some((q, a, ch, d)) => {
            println!("// profile {pname} #{i} count_all={} aspect={a} choices={ch:?}", i % 2 == 0);
            println!("{}", render::program(&q));
            let mut d = d;
            if let Some(o) = d.as_object_mut() {
                o.remove("expected_transcript");
            }
            println!("{}", serde_json::to_string_pretty(&d).unwrap());
            1
        }
    }
}

//! C05 — the Rust compiler agrees with the reference compiler on the corpus.
use crate::corpus;
use crate::explore::{ExploreCfg, explore, explore_sampled, play_path};
use crate::lockstep::{CmpOpts, cmp_recs, cmp_state};
use crate::player::{HostCfg, recs_json};
use crate::rng::fnv;
use crate::storyinfo::StoryInfo;
use crate::util::{Cfg, Report};
use serde_json::json;
use std::collections::BTreeSet;
use std::rc::Rc;

fn host_for(info: &StoryInfo, seed: i32) -> HostCfg {
    HostCfg {
        handler: false,
        fallbacks: true,
        fuel: Some(200_000),
        seed: Some(seed),
        bind: info.externals.keys().map(|k| (k.clone(), true)).collect(),
        observe: vec![],
    }
}

fn sorted(v: &[String]) -> Vec<String> {
    let mut v = v.to_vec();
    v.sort();
    v
}

fn transcript_key(recs: &[crate::player::Rec]) -> String {
    let mut s = String::new();
    for r in recs {
        s.push_str(&format!("{:?}|{:?}|{:?}|{}\n", r.res.as_ref().ok(), r.snap.tags, r.snap.choices, r.snap.can_continue));
    }
    s
}

pub fn run(cfg: &Cfg) -> i32 {
    let mut rep = Report::new(
        cfg,
        "exploration",
        "each case = one (corpus pair, choice path) played on the reference-compiled and the own-compiled story with the same seed; all paths enumerated depth-first up to the bounds; non-trivial = the path delivered >=1 line; distinct by (file, path)",
        40,
    );
    rep.assumptions.push("reference .ink.json fixtures were produced by inklecate from the neighbouring .ink".into());
    rep.assumptions.push("both stories run on the same runtime build; a runtime defect that affects both identically is invisible here (C01)".into());
    let items = corpus::list(&cfg.corpus_dir());
    let only = cfg.get("only").map(|s| s.to_string());
    let mut per_file = serde_json::Map::new();
    let mut pairs = 0;
    let mut all_exhaustive = true;
    let opts = CmpOpts {
        exact_messages: false,
        events: false,
        results: true,
    };
    for it in items.iter() {
        let Some(refp) = &it.ref_json_path else { continue };
        if let Some(o) = &only
            && !it.name.contains(o.as_str())
        {
            continue;
        }
        pairs += 1;
        if !cfg.mine(pairs) {
            continue;
        }
        let ref_json = Rc::new(corpus::read(refp));
        let own = match std::panic::catch_unwind(|| corpus::compile_file(&it.ink_path)) {
            Ok(Ok(j)) => Rc::new(j),
            Ok(Err(e)) => {
                // The reference compiler accepted it (a fixture exists); does the reference story load?
                rep.violation(
                    &format!("{}#compile-error", it.name),
                    json!({"file": it.name, "error": e.to_string()}),
                );
                continue;
            }
            Err(_) => {
                rep.violation(&format!("{}#compile-panic", it.name), json!({"file": it.name}));
                continue;
            }
        };
        let (Some(ri), Some(oi)) = (StoryInfo::from_json_text(&ref_json), StoryInfo::from_json_text(&own)) else {
            rep.harness_error(&format!("cannot read JSON of {}", it.name));
            continue;
        };
        let ri = Rc::new(ri);
        let oi = Rc::new(oi);
        let big = ri.objects > 5000;
        let ecfg = ExploreCfg {
            max_depth: if big { cfg.pick(60, 120) } else { cfg.pick(10, 14) },
            max_paths: if big { cfg.pick(400, 6000) } else { cfg.pick(300, 5000) },
            max_lines_per_segment: 2000,
        };
        let shuffle = ri.uses_shuffle || oi.uses_shuffle;
        let mut paths = 0u64;
        let mut lines = 0u64;
        let mut file_exh = true;
        if !shuffle {
            let seed = 17;
            let explored = if big {
                // fixed generator seed: the corpus is a fixed finite input set and known findings are keyed exactly
                let mut rng = crate::rng::Rng::derive(20260922, "C05-intercept", 0);
                explore_sampled(&ref_json, &ri, &host_for(&ri, seed), &ecfg, &mut rng).map(|r| (r, false))
            } else {
                explore(&ref_json, &ri, &host_for(&ri, seed), &ecfg)
            };
            let (runs, exh) = match explored {
                Ok(x) => x,
                Err(e) => {
                    rep.harness_error(&format!("{}: reference story: {e}", it.name));
                    continue;
                }
            };
            file_exh = exh;
            for run in runs.iter() {
                paths += 1;
                let own_run = play_path(&own, &oi, &host_for(&oi, seed), &run.choices, 2000);
                let nlines = run.recs.iter().filter(|r| r.op == "Cont" && r.res.is_ok()).count() as u64;
                lines += nlines;
                let h = fnv(&format!("{}|{:?}", it.name, run.choices));
                rep.case(if nlines > 0 { Some(h) } else { None });
                if run.fuel {
                    rep.inconclusive("fuel-in-reference-story");
                    continue;
                }
                let div = match &own_run {
                    Err(e) => Some(json!({"field": "play", "error": e})),
                    Ok(o) => cmp_recs(&run.recs, &o.recs, &opts)
                        .or_else(|| {
                            // compare globals present in both by name
                            if sorted(&ri.globals) == sorted(&oi.globals) { cmp_state(&run.final_state, &o.final_state, false) } else {
                                Some(crate::lockstep::Divergence{index: usize::MAX, field: "global-names".into(), a: json!(ri.globals), b: json!(oi.globals)})
                            }
                        })
                        .map(|d| d.to_json()),
                };
                if let Some(d) = div {
                    let (ma, mb) = crate::lockstep::mid_diff(&d["a"].to_string(), &d["b"].to_string());
                    // where: knot.stitch of the reference story's position just before the divergent call
                    let idx = d["index"].as_u64().unwrap_or(u64::MAX) as usize;
                    let place = run
                        .recs
                        .get(idx)
                        .and_then(|r| r.pos.clone())
                        .map(|p| {
                            p.split('.')
                                .take_while(|c| c.parse::<usize>().is_err())
                                .take(2)
                                .collect::<Vec<_>>()
                                .join(".")
                        })
                        .unwrap_or_else(|| "end".to_string());
                    let sig = format!("{}@{}#{}", it.name, place, d["field"].as_str().unwrap_or(""));
                    let d = json!({"divergence": d, "mid_diff": [ma, mb]});
                    let own_recs = own_run.as_ref().map(|o| recs_json(&o.recs)).unwrap_or(json!(null));
                    let new = rep.violation(
                        &sig,
                        json!({"file": it.name, "path": run.choices, "detail": d,
                            "reference_log": recs_json(&run.recs), "own_log": own_recs}),
                    );
                    if new {
                        println!("  {} path {:?}: {}", it.name, run.choices, crate::util::truncate(&d.to_string(), 300));
                    }
                    // one finding per file is enough to report; keep scanning other paths for new signatures but cap
                    if rep.violations.len() > 50 {
                        break;
                    }
                } else if rep.samples.len() < 3 && nlines >= 2 {
                    rep.sample(json!({"file": it.name, "path": run.choices, "agreed_log": recs_json(&run.recs)}));
                }
            }
        } else {
            // shuffle stories: compare the sets of transcripts over a range of story seeds
            // The shuffle seed is (sum of the container path's chars + loop index + story seed), and the
            // two compilers may legitimately give the shuffle container different paths, i.e. a constant seed
            // offset. So: every transcript of one story over a narrow seed range must occur in the other
            // story's transcripts over a wide seed range, and vice versa.
            let small = ExploreCfg { max_depth: 5, max_paths: 40, max_lines_per_segment: 500 };
            let wide: i32 = cfg.pick(400, 1200);
            let narrow: i32 = cfg.pick(10, 24);
            let collect = |json: &Rc<String>, info: &Rc<StoryInfo>, lo: i32, hi: i32, paths: &mut u64| {
                let mut set = BTreeSet::new();
                for seed in lo..hi {
                    if let Ok((runs, _)) = explore(json, info, &host_for(info, seed), &small) {
                        for r in runs {
                            *paths += 1;
                            set.insert(transcript_key(&r.recs));
                        }
                    }
                }
                set
            };
            let ref_wide = collect(&ref_json, &ri, -wide, wide, &mut paths);
            let own_wide = collect(&own, &oi, -wide, wide, &mut paths);
            let ref_narrow = collect(&ref_json, &ri, 0, narrow, &mut paths);
            let own_narrow = collect(&own, &oi, 0, narrow, &mut paths);
            rep.case(Some(fnv(&it.name)));
            rep.count("shuffle-files-compared-as-sets");
            let only_ref: Vec<&String> = ref_narrow.difference(&own_wide).take(2).collect();
            let only_own: Vec<&String> = own_narrow.difference(&ref_wide).take(2).collect();
            if !only_ref.is_empty() || !only_own.is_empty() {
                rep.violation(
                    &format!("{}#shuffle-set", it.name),
                    json!({"file": it.name, "only_in_reference": only_ref, "only_in_own": only_own,
                        "sizes": [ref_wide.len(), own_wide.len()]}),
                );
            }
        }
        if !file_exh {
            all_exhaustive = false;
        }
        per_file.insert(it.name.clone(), json!({"paths": paths, "lines": lines, "exhaustive": file_exh, "shuffle": shuffle}));
        rep.count_n("paths", paths);
        rep.count_n("lines_compared", lines);
    }
    rep.count_n("pairs", pairs);
    rep.exhaustive = Some(all_exhaustive);
    rep.extra.insert("per_file".into(), serde_json::Value::Object(per_file));
    rep.finish()
}

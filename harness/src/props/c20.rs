//! C20 — the command-line tool speaks its protocol and matches the library. This module only prepares the
//! cases (program, stdin script, the library's own transcript for that script); the driver runs the tool.
use crate::programs::{GenOutcome, generated};
use crate::r#gen::build::GenCfg;
use crate::rng::Rng;
use crate::util::Cfg;
use bladeink::story::Story;
use bladeink::story::errors::{ErrorHandler, ErrorType};
use bladeink_compiler::{Compiler, CompilerOptions};
use serde_json::{Value, json};
use std::cell::RefCell;
use std::rc::Rc;

struct Collect {
    errors: Vec<String>,
    warnings: Vec<String>,
}
impl ErrorHandler for Collect {
    fn error(&mut self, message: &str, t: ErrorType) {
        if t == ErrorType::Error { self.errors.push(message.to_string()) } else { self.warnings.push(message.to_string()) }
    }
}

/// What the library shows for this program when a host with the tool's settings (fallbacks allowed, error
/// handler set, 1-based choice numbers, '-> path' jumps with call-stack reset) feeds it `inputs`.
fn library_transcript(json_text: &str, inputs: &[String], keep_open: bool) -> Result<Vec<Value>, String> {
    let mut story = Story::new(json_text).map_err(|e| e.to_string())?;
    story.set_allow_external_function_fallbacks(true);
    let h = Rc::new(RefCell::new(Collect { errors: vec![], warnings: vec![] }));
    story.set_error_handler(h.clone());
    let mut ev: Vec<Value> = Vec::new();
    let mut it = inputs.iter();
    loop {
        while story.can_continue() {
            let text = story.cont().map_err(|e| e.to_string())?;
            let tags = story.get_current_tags().map_err(|e| e.to_string())?;
            ev.push(json!({"text": text}));
            if !tags.is_empty() {
                ev.push(json!({"tags": tags}));
            }
            let mut hb = h.borrow_mut();
            if !hb.errors.is_empty() || !hb.warnings.is_empty() {
                let all: Vec<String> = hb.warnings.iter().chain(hb.errors.iter()).cloned().collect();
                ev.push(json!({"issues": all}));
                hb.errors.clear();
                hb.warnings.clear();
            }
        }
        let choices = story.get_current_choices();
        if choices.is_empty() {
            if keep_open {
                ev.push(json!({"end": true}));
            }
            break;
        }
        ev.push(json!({"choices": choices.iter().map(|c| json!({"text": c.text, "tags": c.tags})).collect::<Vec<_>>()}));
        loop {
            ev.push(json!({"needInput": true}));
            let Some(raw) = it.next() else {
                ev.push(json!({"close": true}));
                return Ok(ev);
            };
            let t = raw.trim();
            if t.is_empty() {
                continue;
            }
            let lower = t.to_lowercase();
            if lower == "quit" || lower == "exit" {
                return Ok(ev);
            }
            if lower == "help" {
                ev.push(json!({"cmdOutput": true}));
                continue;
            }
            let words: Vec<&str> = t.split_whitespace().collect();
            if words.len() == 2 && words[0] == "->" {
                if let Err(e) = story.choose_path_string(words[1], true, None) {
                    ev.push(json!({"issues": [format!("Error diverting to '{}': {}", words[1], e)]}));
                }
                break;
            }
            if let Ok(n) = t.parse::<usize>()
                && n >= 1
            {
                if n - 1 >= choices.len() {
                    continue;
                }
                story.choose_choice_index(n - 1).map_err(|e| e.to_string())?;
                break;
            }
        }
    }
    Ok(ev)
}

/// `inkmon c20gen --seed S --count N --dir D`: writes case-<i>/{prog.ink, bad.ink, case.json}
pub fn generate_cases(cfg: &Cfg) -> i32 {
    let dir = cfg.get("dir").expect("--dir").to_string();
    let n = cfg.get_u64("count", 20);
    let mut gc = GenCfg::core();
    gc.hostile_words = true;
    gc.choice_tags = true;
    gc.plain_choice_text = true;
    gc.externals = false;
    let mut made = 0;
    for i in 0..n {
        let GenOutcome::Ok(c) = generated(cfg.seed, "C20", i, &gc) else { continue };
        let mut rng = Rng::derive(cfg.seed, "C20-inputs", i);
        // every other program gets mixed-case identifiers (paths typed by the user are case-sensitive), and some
        // sources start with blank lines and/or a byte-order mark (line numbers in messages must still be right)
        let (c, name_prefix) = if i % 2 == 1 && c.ast.is_some() {
            let p2 = crate::r#gen::rename::prefix_program(c.ast.as_ref().unwrap(), "Up_");
            match crate::programs::compile_ast(&format!("{}-mixed-case", c.name), p2, Default::default()) {
                GenOutcome::Ok(c2) => (c2, "Up_k"),
                _ => (c, "k"),
            }
        } else {
            (c, "k")
        };
        let lead_blank = rng.pick(&["", "", "\n", "\n\n\n", "  \n\t\n"]).to_string();
        let bom = if rng.chance(1, 4) { "\u{feff}" } else { "" };
        let src = format!("{lead_blank}{}", c.src.clone().unwrap());
        // the tool's own compilation (with the file name, count_all_visits as the tool passes it)
        let opts = CompilerOptions { count_all_visits: true, source_filename: Some("prog.ink".to_string()) };
        let Ok(lib_json) = Compiler::with_options(opts.clone()).compile(&src) else { continue };
        let knots: Vec<String> = c.info.knots.iter().filter(|k| k.starts_with(name_prefix)).cloned().collect();
        let mut scripts: Vec<Value> = Vec::new();
        for s in 0..4 {
            let mut inputs: Vec<String> = Vec::new();
            let len = 3 + rng.below(8);
            for _ in 0..len {
                let x = match rng.below(16) {
                    0 => "0".to_string(),
                    1 => "99".to_string(),
                    2 => "18446744073709551616".to_string(),
                    3 => "".to_string(),
                    4 => "help".to_string(),
                    5 if !knots.is_empty() => format!("-> {}", rng.pick(&knots)),
                    6 => "-> unknown\"with\\hostile".to_string(),
                    7 => "-> nowhere.\u{1}ctl".to_string(),
                    8 => "  2  ".to_string(),
                    9 => "nonsense input".to_string(),
                    10 => "-1".to_string(),
                    _ => (1 + rng.below(3)).to_string(),
                };
                inputs.push(x);
            }
            if s == 1 {
                inputs.push("quit".into());
            }
            let keep_open = s % 2 == 0;
            match library_transcript(&lib_json, &inputs, keep_open) {
                Ok(ev) => scripts.push(json!({"inputs": inputs, "keep_open": keep_open, "expected": ev})),
                Err(e) => scripts.push(json!({"inputs": inputs, "keep_open": keep_open, "library_error": e})),
            }
        }
        // a source the compiler rejects, with the library's message
        let mut bad_lines: Vec<String> = src.lines().map(|l| l.to_string()).collect();
        let at = rng.below(bad_lines.len().max(1));
        let breaker = rng.pick(&["-> nowhere_to_go", "{ unbalanced", "~ temp = = 3", "* [unclosed", "=== function ==="]).to_string();
        bad_lines.insert(at, breaker.clone());
        let bad = bad_lines.join("\n") + "\n";
        let bad_err = match Compiler::with_options(opts).compile(&bad) {
            Ok(_) => Value::Null,
            Err(e) => json!(e.to_string()),
        };
        let cdir = format!("{dir}/case-{i}");
        let _ = std::fs::create_dir_all(&cdir);
        // the files the tool reads may start with a byte-order mark; the library is given the text without it
        let _ = std::fs::write(format!("{cdir}/prog.ink"), format!("{bom}{src}"));
        let _ = std::fs::write(format!("{cdir}/bad.ink"), format!("{bom}{bad}"));
        let _ = std::fs::write(format!("{cdir}/lib.json"), &lib_json);
        let case = json!({"name": c.name, "scripts": scripts, "bad_error": bad_err, "bad_line_inserted": breaker, "bad_at_line": at + 1});
        let _ = std::fs::write(format!("{cdir}/case.json"), serde_json::to_string_pretty(&case).unwrap());
        made += 1;
    }
    println!("C20GEN made={made}");
    0
}

//! C06 — the compiler is total and deterministic, and its output is well formed.
use crate::corpus;
use crate::jsonpath;
use crate::programs::{GenOutcome, generated};
use crate::r#gen::build::GenCfg;
use crate::rng::{Rng, fnv};
use crate::util::{Cfg, Report, take_last_panic, truncate};
use bladeink::story::Story;
use bladeink_compiler::{Compiler, CompilerError};
use serde_json::{Value, json};
use std::collections::BTreeSet;
use std::time::Instant;

const TOKENS: &[&str] = &[
    "->", "<-", "->->", "<>", "*", "+", "-", "=", "==", "===", "~", "{", "}", "[", "]", "(", ")", "|", "&", "!", "#", ":", ",", ".", "\"", "\\", "//", "/*", "*/",
    "VAR", "CONST", "LIST", "EXTERNAL", "INCLUDE", "TODO:", "temp", "return", "function", "END", "DONE", "else", "not", "and", "or", "true", "false",
    "stopping", "cycle", "shuffle", "once", "TURNS_SINCE", "CHOICE_COUNT", "RANDOM", "LIST_COUNT", "knot", "x", "y", "1", "0", "2.5", " ", "  ", "\n", "\n", "\t",
    "日", "é", "🙂", "\u{0301}", "\u{200b}", "\r\n",
];

fn mutate(src: &str, rng: &mut Rng, pool: &[String]) -> (String, &'static str) {
    let chars: Vec<char> = src.chars().collect();
    let lines: Vec<&str> = src.lines().collect();
    match rng.below(12) {
        0 if !chars.is_empty() => {
            // delete a char range
            let a = rng.below(chars.len());
            let b = (a + 1 + rng.below(6)).min(chars.len());
            (chars[..a].iter().chain(chars[b..].iter()).collect(), "char-delete")
        }
        1 if !chars.is_empty() => {
            let a = rng.below(chars.len());
            let tok = rng.pick(TOKENS);
            (format!("{}{}{}", chars[..a].iter().collect::<String>(), tok, chars[a..].iter().collect::<String>()), "token-insert")
        }
        2 if !chars.is_empty() => {
            let a = rng.below(chars.len());
            let tok = rng.pick(TOKENS);
            let b = (a + 1 + rng.below(3)).min(chars.len());
            (format!("{}{}{}", chars[..a].iter().collect::<String>(), tok, chars[b..].iter().collect::<String>()), "token-replace")
        }
        3 if lines.len() > 1 => {
            let mut l = lines.clone();
            let i = rng.below(l.len());
            l.remove(i);
            (l.join("\n") + "\n", "line-delete")
        }
        4 if !lines.is_empty() => {
            let mut l = lines.clone();
            let i = rng.below(l.len());
            let x = l[i];
            l.insert(rng.below(l.len() + 1), x);
            (l.join("\n") + "\n", "line-duplicate-move")
        }
        5 if lines.len() > 2 => {
            let mut l = lines.clone();
            let i = rng.below(l.len());
            let j = rng.below(l.len());
            l.swap(i, j);
            (l.join("\n") + "\n", "line-swap")
        }
        6 if !pool.is_empty() => {
            // splice: head of this source, tail of another
            let other = rng.pick(pool);
            let ol: Vec<&str> = other.lines().collect();
            let a = rng.below(lines.len().max(1));
            let b = rng.below(ol.len().max(1));
            let mut l: Vec<&str> = lines[..a].to_vec();
            l.extend_from_slice(&ol[b..]);
            (l.join("\n") + "\n", "splice")
        }
        7 => {
            // rename one use of an identifier
            let words: Vec<(usize, usize)> = {
                let mut v = Vec::new();
                let mut i = 0;
                while i < chars.len() {
                    if chars[i].is_alphabetic() || chars[i] == '_' {
                        let s = i;
                        while i < chars.len() && (chars[i].is_alphanumeric() || chars[i] == '_') {
                            i += 1;
                        }
                        v.push((s, i));
                    } else {
                        i += 1;
                    }
                }
                v
            };
            if words.is_empty() {
                return (src.to_string(), "none");
            }
            let (s, e) = words[rng.below(words.len())];
            let len = e - s;
            let repl: String = match rng.below(5) {
                0 => "zz_unknown".to_string(),
                1 => chars[s..e].iter().rev().collect(),
                2 if len > 2 => chars[s + 1 + rng.below((len - 2).min(2))..e].iter().collect(), // a proper suffix
                3 if len > 2 => chars[s..e - 1].iter().collect(),                               // a proper prefix
                _ => format!("{}x", chars[s..e].iter().collect::<String>()),
            };
            (format!("{}{}{}", chars[..s].iter().collect::<String>(), repl, chars[e..].iter().collect::<String>()), "identifier-rename")
        }
        8 if !chars.is_empty() => {
            // unbalance: remove one bracket-like char
            let idx: Vec<usize> = (0..chars.len()).filter(|i| "{}[]()\"|".contains(chars[*i])).collect();
            if idx.is_empty() {
                return (src.to_string(), "none");
            }
            let a = idx[rng.below(idx.len())];
            (chars[..a].iter().chain(chars[a + 1..].iter()).collect(), "unbalance")
        }
        9 if !chars.is_empty() => {
            // multi-byte characters inside expressions and strings
            let idx: Vec<usize> = (0..chars.len()).filter(|i| chars[*i] == '{' || chars[*i] == '"' || chars[*i] == '~').collect();
            if idx.is_empty() {
                return (src.to_string(), "none");
            }
            let a = idx[rng.below(idx.len())] + 1;
            let ins = rng.pick(&["日日日", "\"日本\" + ", "é", "🙂🙂", "\u{0301}\u{0301}", "ß "]);
            (format!("{}{}{}", chars[..a].iter().collect::<String>(), ins, chars[a..].iter().collect::<String>()), "multibyte-insert")
        }
        10 => {
            let mut s = String::new();
            for _ in 0..5 + rng.below(60) {
                s.push_str(*rng.pick(TOKENS));
                if rng.chance(1, 3) {
                    s.push(' ');
                }
            }
            (s, "token-soup")
        }
        _ => {
            let mut l = lines.clone();
            let extra = format!("{}{}", rng.pick(&["INCLUDE ", "INCLUDE self.ink", "EXTERNAL ", "LIST ", "VAR ", "CONST ", "=== ", "= ", "~ ", "* ", "- (", "{", "-> ", "<- ", "->-> "]), rng.pick(TOKENS));
            l.insert(rng.below(l.len() + 1), &extra);
            (l.join("\n") + "\n", "directive-insert")
        }
    }
}

fn declared_externals(src: &str) -> BTreeSet<String> {
    let mut s = BTreeSet::new();
    for line in src.lines() {
        let t = line.trim_start();
        if let Some(rest) = t.strip_prefix("EXTERNAL") {
            let name: String = rest.trim_start().chars().take_while(|c| c.is_alphanumeric() || *c == '_').collect();
            if !name.is_empty() {
                s.insert(name);
            }
        }
    }
    s
}

fn err_parts(e: &CompilerError) -> (Option<String>, Option<usize>, String) {
    match e {
        CompilerError::InvalidSource { message, file, line } | CompilerError::UnsupportedFeature { message, file, line } => (file.clone(), *line, message.clone()),
    }
}

pub struct Outcome {
    pub class: String,
}

/// Compiles one input under the monitor.
pub fn check_input(rep: &mut Report, name: &str, src: &str, how: &str, timings: &mut Vec<f64>) -> Outcome {
    let repo = rep.cfg.repo_dir.clone();
    let nlines = src.lines().count().max(1) + 1;
    let t0 = Instant::now();
    let handler = |f: &str| -> Result<String, CompilerError> {
        match f {
            "self.ink" | "loop.ink" => Ok("INCLUDE self.ink\nincluded line\n".to_string()),
            "ok.ink" => Ok("included ok\n".to_string()),
            _ => Err(CompilerError::invalid_source(format!("no such file {f}"))),
        }
    };
    let r = std::panic::catch_unwind(|| Compiler::new().compile_with_file_handler(src, handler));
    let dt = t0.elapsed().as_secs_f64();
    timings.push(dt);
    let wit = |extra: Value| json!({"input_name": name, "mutation": how, "source": truncate(src, 4000), "detail": extra});
    match r {
        Err(_) => {
            let (loc, msg) = take_last_panic().unwrap_or_default();
            if crate::util::panic_in_repo(&loc, &repo) || loc.contains("bladeink_compiler") {
                let sig = format!("compile/{}", crate::util::panic_signature(&loc, &msg, &repo));
                rep.violation(&sig, wit(json!({"panic_location": loc, "panic_message": msg})));
            } else {
                rep.harness_error(&format!("harness panic at {loc}: {msg}"));
            }
            Outcome { class: "panic".into() }
        }
        Ok(Err(e)) => {
            let (file, line, msg) = err_parts(&e);
            if let Some(l) = line {
                rep.count("error-lines-checked");
                // a line in an included file is checked against that file (the handler's files have 2 lines)
                let limit = if file.as_deref().map(|f| f.ends_with("self.ink") || f.ends_with("ok.ink") || f.ends_with("loop.ink")).unwrap_or(false) { 3 } else { nlines };
                if l == 0 || l > limit {
                    rep.violation("compile/error-line-out-of-range", wit(json!({"line": l, "lines_in_input": nlines - 1, "file": file, "message": msg})));
                }
            }
            if msg.trim().is_empty() {
                rep.violation("compile/empty-error-message", wit(json!({"line": line})));
            }
            Outcome { class: if matches!(e, CompilerError::UnsupportedFeature { .. }) { "unsupported".into() } else { "invalid_source".into() } }
        }
        Ok(Ok(json_text)) => {
            // determinism
            let again = std::panic::catch_unwind(|| Compiler::new().compile_with_file_handler(src, handler));
            match again {
                Ok(Ok(j2)) if j2 == json_text => rep.count("recompilations-byte-identical"),
                _ => {
                    let _ = take_last_panic();
                    rep.violation("compile/nondeterministic-output", wit(json!({"first_len": json_text.len()})));
                }
            }
            // loads in the runtime
            let loaded = std::panic::catch_unwind(|| Story::new(&json_text).map(|_| ()));
            match loaded {
                Err(_) => {
                    let (loc, msg) = take_last_panic().unwrap_or_default();
                    let sig = format!("output/runtime-panics-loading-it/{}", crate::util::panic_signature(&loc, &msg, &repo).split('#').next().unwrap_or(""));
                    rep.violation(&sig, wit(json!({"panic_location": loc, "panic_message": msg, "json": truncate(&json_text, 2000)})));
                    return Outcome { class: "ok-but-unloadable".into() };
                }
                Ok(Err(e)) => {
                    let m = e.to_string();
                    let kind = if m.contains("recursion limit") { "too-deep" } else { "rejected" };
                    rep.violation(&format!("output/runtime-{kind}"), wit(json!({"error": m, "json": truncate(&json_text, 2000)})));
                    return Outcome { class: "ok-but-unloadable".into() };
                }
                Ok(Ok(())) => rep.count("outputs-loaded-by-runtime"),
            }
            // static walk
            match serde_json::from_str::<Value>(&json_text) {
                Err(e) => {
                    rep.violation("output/not-json", wit(json!({"error": e.to_string()})));
                }
                Ok(doc) => match jsonpath::audit(&doc, &declared_externals(src)) {
                    Err(e) => {
                        rep.violation("output/malformed-document", wit(json!({"error": e})));
                    }
                    Ok((dangling, refs)) => {
                        for (k, v) in refs {
                            rep.count_n(&format!("refs-resolved:{k}"), v);
                        }
                        for d in dangling.iter().take(3) {
                            // what kind of text the unresolved reference is: a well-formed name that simply does not
                            // exist is a different failure from an empty or garbled target
                            let r = d.reference.as_str();
                            let category = if r.is_empty() {
                                "empty"
                            } else if r.starts_with('.') {
                                "relative"
                            } else if r.split('.').all(|c| !c.is_empty() && c.chars().all(|ch| ch.is_ascii_alphanumeric() || ch == '_' || ch == '-')) {
                                if r.split('.').any(|c| c.chars().all(|ch| ch.is_ascii_digit())) { "indexed-path" } else if r.contains('.') { "dotted-name" } else { "plain-name" }
                            } else {
                                "garbled"
                            };
                            let _ = category;
                            let sig = format!("output/dangling:{}", d.kind);
                            rep.violation(&sig, wit(json!({"reference": d.reference, "at": d.at, "why": d.why, "json": truncate(&json_text, 3000)})));
                        }
                    }
                },
            }
            Outcome { class: "ok".into() }
        }
    }
}

pub fn run(cfg: &Cfg) -> i32 {
    let mut rep = Report::new(
        cfg,
        "exploration",
        "case = one input text given to the compiler (with an in-memory INCLUDE handler): corpus sources and generated programs after 1-3 byte/char/token/line-level mutations (delete, insert or replace tokens from Ink's punctuation and keywords, delete/duplicate/swap lines, splice with another source, rename one identifier use, unbalance brackets/quotes, insert multi-byte characters next to braces and quotes, insert directives), token soup, nesting bombs. Monitored: no panic (caught, attributed to a compiler function), no process death (journal), an error's line lies inside the input, Ok output is byte-identical on recompilation, loads in the runtime, and an independent static walk resolves every ->, f(), ->t->, choice target, CNT?, ^-> path exactly and finds every VAR?/VAR=/temp= reassignment name declared and every x() declared by an EXTERNAL line. Non-trivial = the input is not one of the unmutated base texts; distinct by input text.",
        cfg.pick(15_000, 2_000_000),
    );
    let ncases = cfg.get_u64("cases", cfg.pick(40_000, 6_000_000));
    // base pool
    let mut pool: Vec<(String, String)> = Vec::new();
    for it in corpus::list(&cfg.corpus_dir()) {
        let s = corpus::read(&it.ink_path);
        if s.len() < 20_000 {
            pool.push((it.name.clone(), s));
        }
    }
    let gc = GenCfg::rich();
    for i in 0..40 {
        if let GenOutcome::Ok(c) = generated(cfg.seed, "C06", i, &gc) {
            pool.push((c.name.clone(), c.src.unwrap()));
        }
    }
    // lists that share item names, used unqualified (name resolution must not depend on table order)
    pool.push(("shared-items-1".into(), "LIST colours = (red), green, shared\nLIST moods = calm, (shared), angry\nVAR v = 0\n-> start\n=== start ===\n~ v = LIST_VALUE(shared)\nValue {v} {(shared)} {(shared, red)} {colours ? (shared)}\n* [go] -> other\n=== other ===\n{(calm, shared)} {LIST_ALL((shared))}\n-> END\n".into()));
    pool.push(("shared-items-2".into(), "LIST a = x, (y), z\nLIST b = (x), y, w\nLIST c = z, w, (x)\nFirst {(x)} {(y, z)} {(w)}\n~ temp t = (x, w)\n{t} {LIST_COUNT(t)} {LIST_MIN((z, y))}\n-> END\n".into()));
    // constants defined from constants (any table the compiler keeps them in must not leak its order into the output)
    pool.push(("const-chain-1".into(), "CONST BASE = 2\nCONST STEP = BASE + 1\nCONST LIMIT = STEP * 2\nCONST TOP = LIMIT + STEP\nCONST NAME = \"ink\"\nCONST FLAG = true\nVAR v = LIMIT\n-> start\n=== start ===\nlimit {LIMIT} top {TOP} step {STEP} base {BASE} {NAME} {FLAG}\n~ v = TOP - BASE\n* {v > LIMIT} [go {TOP}] -> other\n* [stay] -> END\n=== other ===\n{TOP + LIMIT + STEP + BASE} {v}\n-> END\n".into()));
    pool.push(("const-chain-2".into(), "CONST A = 1\nCONST B = A + A\nCONST C = B + A\nCONST D = C + B\nCONST E = D + C\nCONST F = E + D\nCONST G = F + E\nLIST l = (p), q, r\nVAR w = G\n{A} {B} {C} {D} {E} {F} {G} {w}\n~ w = G - F + LIST_VALUE(q)\n{w > E: big|small} {l}\n-> END\n".into()));
    let texts: Vec<String> = pool.iter().map(|p| p.1.clone()).collect();
    let mut classes: std::collections::BTreeMap<String, u64> = Default::default();
    let mut timings: Vec<f64> = Vec::new();
    let mut sampled = 0;
    let chunk = 200;
    let mut i = 0u64;
    if cfg.get("bombs-only").is_some() {
        i = ncases;
    }
    while i < ncases {
        let block = i / chunk;
        if !cfg.mine(block) {
            i += chunk;
            continue;
        }
        for k in i..(i + chunk).min(ncases) {
            if let Some(only) = cfg.get("only-case")
                && only.parse::<u64>().ok() != Some(k)
            {
                continue;
            }
            let mut rng = Rng::derive(cfg.seed, "C06", k);
            let (name, base) = if k % 40 == 7 { &pool[pool.len() - 1 - (k as usize / 40) % 4] } else { &pool[rng.below(pool.len())] };
            let mut src = base.clone();
            let mut how = Vec::new();
            let nm = if k % 50 == 0 { 0 } else { 1 + rng.below(3) };
            for _ in 0..nm {
                let (s2, label) = mutate(&src, &mut rng, &texts);
                src = s2;
                how.push(label);
            }
            let how_s = how.join("+");
            // one journal entry per input: a stack overflow or abort kills the worker and is attributed to it
            rep.journal_start(&format!("mutated-input#case{k}"));
            if cfg.get("only-case").is_some() {
                println!("CASE {k} base={name} mutations={how_s}\n----\n{src}\n----");
            }
            let o = check_input(&mut rep, name, &src, &how_s, &mut timings);
            rep.journal_end(&format!("mutated-input#case{k}"));
            rep.case(if nm > 0 { Some(fnv(&src)) } else { None });
            *classes.entry(o.class.clone()).or_insert(0) += 1;
            for h in how.iter() {
                *classes.entry(format!("mutation:{h}")).or_insert(0) += 1;
            }
            if sampled < 4 && k % 997 == 3 {
                sampled += 1;
                rep.sample(json!({"base": name, "mutations": how_s, "outcome": o.class, "input": truncate(&src, 600)}));
            }
        }
        i += chunk;
    }
    // nesting bombs and long inputs, each in its own journal entry
    let bombs: Vec<(&str, String)> = vec![
        ("paren-bomb", format!("{{{}1{}}}\n", "(".repeat(20_000), ")".repeat(20_000))),
        ("brace-bomb", format!("{}x{}\n", "{".repeat(5_000), "}".repeat(5_000))),
        ("brace-line-bomb", "{\n".repeat(3_000)),
        ("cond-line-bomb", "{x:\n".repeat(3_000)),
        ("choice-depth-bomb", (1..400).map(|d| format!("{}nested {d}\n", "* ".repeat(d))).collect::<String>()),
        ("gather-depth-bomb", (1..400).map(|d| format!("{}g {d}\n", "- ".repeat(d))).collect::<String>()),
        ("choice-marker-bomb", format!("{} text\n", "* ".repeat(10_000))),
        ("bracket-bomb", format!("* {}x{}\n", "[".repeat(5_000), "]".repeat(5_000))),
        ("long-line", format!("{}\n", "word ".repeat(200_000))),
        ("many-knots", (0..5_000).map(|k| format!("=== k{k} ===\nline\n-> END\n")).collect::<String>()),
        ("include-self", "INCLUDE self.ink\nmain\n".to_string()),
        ("include-missing", "INCLUDE nothere.ink\nmain\n".to_string()),
    ];
    for (bi, (label, text)) in bombs.iter().enumerate() {
        if cfg.get("no-bombs").is_some() || !cfg.mine(bi as u64) {
            continue;
        }
        let case = format!("bomb#{label}");
        rep.journal_start(&case);
        let o = check_input(&mut rep, label, text, "bomb", &mut timings);
        rep.case(Some(fnv(&case)));
        *classes.entry(format!("bomb:{label}:{}", o.class)).or_insert(0) += 1;
        rep.journal_end(&case);
    }
    for (k, v) in classes {
        rep.count_n(&k, v);
    }
    timings.sort_by(|a, b| a.partial_cmp(b).unwrap());
    if !timings.is_empty() {
        rep.extra.insert("compile_seconds".into(), json!({"median": timings[timings.len() / 2], "max": timings[timings.len() - 1], "p99": timings[timings.len() * 99 / 100]}));
    }
    rep.finish()
}

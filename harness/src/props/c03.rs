//! C03 — play is a deterministic function of program, seed and host calls; compilation is deterministic.
use crate::history::{HistCfg, gen_history};
use crate::lockstep::{CmpOpts, cmp_recs, cmp_state};
use crate::player::{HostCfg, Player, recs_json};
use crate::programs::{Compiled, GenOutcome, corpus_stories, from_json, generated};
use crate::r#gen::build::GenCfg;
use crate::rng::{Rng, fnv};
use crate::util::{Cfg, Report, truncate};
use serde_json::json;
use std::io::Write;

const HAND: &[&str] = &[
    "LIST colours = (red), green, shared\nLIST moods = calm, (shared), angry\nVAR v = 0\nVAR picked = shared\n-> start\n=== start ===\n~ v = LIST_VALUE(shared)\nValue {v} {(shared)} {(shared, red)} {picked} {LIST_ALL(picked)}\n{LIST_MIN((red, calm))} {LIST_MAX((green, calm))} {LIST_RANDOM((red, calm, green, angry))}\n* [go] -> other\n* [stay] {LIST_RANDOM(LIST_ALL(colours))} -> END\n=== other ===\n{(calm, shared)} {LIST_ALL((shared))} {colours(2)} {moods(2)}\n-> END\n",
    "LIST a = x = 1, (y = 2), z = 3\nLIST b = (x = 1), y = 2, w = 3\nLIST c = z = 3, w = 1, (x = 2)\nVAR s = ()\n~ s = (x, w)\nFirst {(x)} {(y, z)} {(w)} {s}\n~ s += y\n{s} {LIST_COUNT(s)} {LIST_MIN(s)} {LIST_MAX(s)} {LIST_MIN(LIST_ALL(a) + LIST_ALL(b))} {LIST_MAX(LIST_ALL(b) + LIST_ALL(c))}\n{~one|two|three|four} {RANDOM(1, 100)} {LIST_RANDOM(LIST_ALL(a) + LIST_ALL(c))}\n+ [again] -> loop\n=== loop ===\n{~p|q|r} {RANDOM(1, 6)} {LIST_RANDOM(LIST_ALL(b))}\n+ {loop < 4} [more] -> loop\n* [done] -> END\n",
    // seeds at the ends of the int range, set by the story itself
    "LIST l = (a), (b), (c), (d)\nVAR n = 0\n~ SEED_RANDOM(2147483647)\n{RANDOM(1, 6)} {RANDOM(1, 6)} {LIST_RANDOM(l)} {~one|two|three} {RANDOM(1, 100)}\n~ SEED_RANDOM(-2147483647)\n{RANDOM(1, 6)} {LIST_RANDOM(l)} {~x|y|z|w}\n~ SEED_RANDOM(2000000000)\n{LIST_RANDOM(l)} {RANDOM(1, 9)} {RANDOM(1, 9)}\n+ [again] -> loop\n=== loop ===\n~ n = n + 1\n~ SEED_RANDOM(2147483640 + n)\n{~p|q|r|s} {RANDOM(1, 6)} {LIST_RANDOM(l)} {RANDOM(1, 6)}\n+ {loop < 5} [more] -> loop\n* [done] -> END\n",
];

/// story seeds, including the ends of the i32 range (seed arithmetic must wrap the same way in every build)
const SEEDS: &[i32] = &[42, 0, 1, i32::MAX, 2_000_000_000, -1, i32::MIN, i32::MAX - 7];

fn host_for(c: &Compiled, seed: i32) -> HostCfg {
    HostCfg {
        handler: true,
        fallbacks: true,
        fuel: Some(30_000),
        seed: Some(seed),
        bind: vec![], // unbound externals use their fallbacks or produce the (sorted) missing-binding error
        observe: c.info.globals.iter().take(3).enumerate().map(|(k, g)| (k, g.clone())).collect(),
    }
}

pub fn run(cfg: &Cfg) -> i32 {
    let profile = if cfg!(debug_assertions) { "debug" } else { "release" };
    let mut rep = Report::new(
        cfg,
        "exploration",
        "case = (program, story seed, host-call history): programs weighted to order-sensitive operations (several LISTs with EQUAL item values and SHARED item names, LIST_MIN/MAX/VALUE/ALL/RANDOM, list-from-int, list printing, shuffles, RANDOM, 14-22 globals, named flows, unbound externals whose names appear in an error text) plus two hand-written tie-heavy stories and corpus stories. Each source is compiled 3 times in this process (byte-identical output required); the first instance generates the history, then 7 more freshly constructed instances (each with fresh hash-map keys) replay it: every record (text, tags, choices, results, callbacks as a multiset per call), the final globals and visit counts, and the canonical save must be identical. A digest of (compiled bytes, transcript, save) per case is written so that the driver can compare 4 separate processes in 2 build profiles. Non-trivial = the history executed >= 3 calls; distinct by (program, history).",
        cfg.pick(150, 4000),
    );
    rep.assumptions.push(format!("this worker ran the {profile} profile; cross-process and cross-profile equality is decided by the driver from the digests"));
    let mut gc = GenCfg::rich();
    gc.list_ties = true;
    gc.shared_item_names = true;
    gc.many_globals = true;
    gc.externals = true;
    let nprog = cfg.get_u64("programs", cfg.pick(120, 4000));
    let repeats = 7;
    let mut stories: Vec<(Compiled, Option<String>)> = Vec::new();
    for (k, src) in HAND.iter().enumerate() {
        if let Ok(j) = bladeink_compiler::Compiler::new().compile(src)
            && let Some(c) = from_json(&format!("hand-{k}"), j, Some(src.to_string()))
        {
            stories.push((c, Some(src.to_string())));
        }
    }
    for i in 0..nprog {
        if let GenOutcome::Ok(c) = generated(cfg.seed, "C03", i, &gc) {
            let s = c.src.clone();
            stories.push((c, s));
        }
    }
    let corpus = corpus_stories(&cfg.corpus_dir(), true, false, 3000);
    for c in corpus.into_iter().filter(|c| c.info.uses_random || c.info.uses_shuffle || !c.info.lists.is_empty()) {
        stories.push((c, None));
    }
    let opts = CmpOpts::default();
    let mut digests: Vec<(String, u64)> = Vec::new();
    let mut sampled = 0;
    for (si, (c, src)) in stories.iter().enumerate() {
        if !cfg.mine(si as u64) {
            continue;
        }
        // compile determinism
        let mut compiled_hash = fnv(&c.json);
        if let Some(src) = src {
            let outs: Vec<Option<String>> = (0..3).map(|_| std::panic::catch_unwind(|| bladeink_compiler::Compiler::new().compile(src)).ok().and_then(|r| r.ok())).collect();
            rep.count("compilations-compared");
            if outs.iter().any(|o| o != &outs[0]) {
                rep.violation("compile/output-differs-between-compilations", json!({"program": c.name, "source": src, "lengths": outs.iter().map(|o| o.as_ref().map(|s| s.len())).collect::<Vec<_>>()}));
            }
            if let Some(Some(o)) = outs.first() {
                compiled_hash = fnv(o);
            }
        }
        for h in 0..cfg.pick(2, 3) as u64 {
            let mut rng = Rng::derive(cfg.seed, "C03-hist", si as u64 * 10 + h);
            let story_seed = SEEDS[(si + h as usize * 3) % SEEDS.len()];
            let host = host_for(c, story_seed);
            // Warm-up: the same program played with a DIFFERENT seed first, on this thread, by an instance that is
            // then dropped. It must leave no trace. The seed depends on the run label, so the processes the driver
            // compares warm up differently, and the run in a fresh thread below does not warm up at all.
            {
                let label_salt = fnv(cfg.get("run-label").unwrap_or("in-process")) as i32;
                let warm = host_for(c, story_seed.wrapping_add(1 + (label_salt & 0xff)));
                let mut wrng = Rng::derive(cfg.seed, "C03-warmup", si as u64 * 10 + h);
                let whc = HistCfg { max_ops: 12, flows: false, jumps: false, cont_max: false, set_vars: false, stop_at_end: true, bad_calls: false, jump_targets: None };
                let _ = std::panic::catch_unwind(std::panic::AssertUnwindSafe(|| gen_history(c, &warm, &mut wrng, &whc)));
                let _ = crate::util::take_last_panic();
                rep.count("warm-up-plays-with-another-seed");
            }
            let hc = HistCfg { max_ops: cfg.pick(30, 50), flows: h == 1, jumps: false, cont_max: h == 2, set_vars: true, stop_at_end: true, bad_calls: false, jump_targets: None };
            let first = std::panic::catch_unwind(std::panic::AssertUnwindSafe(|| gen_history(c, &host, &mut rng, &hc)));
            let hist = match first {
                Ok(Ok(h)) => h,
                _ => {
                    let _ = crate::util::take_last_panic();
                    rep.inconclusive("first-run-failed (C04's business)");
                    continue;
                }
            };
            rep.case(if hist.ops.len() >= 3 { Some(fnv(&format!("{}|{h}", c.name))) } else { None });
            // the first run's save
            let first_save = {
                let mut p = match Player::new(c.json.clone(), c.info.clone(), host.clone()) {
                    Ok(p) => p,
                    Err(_) => continue,
                };
                for op in hist.ops.iter() {
                    p.apply(op);
                }
                p.canonical_save().ok()
            };
            let mut distinct_transcripts = 1;
            for r in 0..repeats {
                let run = std::panic::catch_unwind(std::panic::AssertUnwindSafe(|| -> Result<_, String> {
                    let mut p = Player::new(c.json.clone(), c.info.clone(), host.clone())?;
                    for op in hist.ops.iter() {
                        p.apply(op);
                    }
                    let save = p.canonical_save().ok();
                    Ok((p.recs.clone(), p.full_state(), save))
                }));
                let Ok(Ok((recs, state, save))) = run else {
                    let _ = crate::util::take_last_panic();
                    rep.inconclusive("repeat-run-failed");
                    continue;
                };
                rep.count("repeat-runs-compared");
                let wit = |what: &str, detail: serde_json::Value| {
                    json!({"program": c.name, "source": c.src.as_ref().map(|s| truncate(s, 4000)), "history": hist.ops.iter().map(|o| o.show()).collect::<Vec<_>>(), "repeat": r, "what": what, "detail": detail, "first_run_log": recs_json(&hist.recs)})
                };
                if let Some(d) = cmp_recs(&hist.recs, &recs, &opts) {
                    distinct_transcripts += 1;
                    rep.violation(&format!("nondeterministic/{}", d.field), wit("two runs of the same program, seed and history differ", d.to_json()));
                    break;
                }
                if let Some(d) = cmp_state(&hist.final_state, &state, true) {
                    distinct_transcripts += 1;
                    rep.violation("nondeterministic/final-state", wit("final variables or visit counts differ between runs", d.to_json()));
                    break;
                }
                if save != first_save {
                    distinct_transcripts += 1;
                    rep.violation("nondeterministic/save", wit("the saved states of two identical runs are not equivalent", json!(null)));
                    break;
                }
            }
            let _ = distinct_transcripts;
            // the same history in a thread that has never run a story (no warm-up, no earlier cases)
            {
                let json_text: String = (*c.json).clone();
                let name = c.name.clone();
                let ops = hist.ops.clone();
                let host2 = host.clone();
                let handle = std::thread::Builder::new().stack_size(64 << 20).spawn(move || -> Result<(Vec<crate::player::Rec>, crate::player::FullState), String> {
                    let c2 = from_json(&name, json_text, None).ok_or("unreadable story")?;
                    let mut p = Player::new(c2.json.clone(), c2.info.clone(), host2)?;
                    for op in ops.iter() {
                        p.apply(op);
                    }
                    Ok((p.recs.clone(), p.full_state()))
                });
                match handle.map(|h| h.join()) {
                    Ok(Ok(Ok((recs, state)))) => {
                        rep.count("fresh-thread-runs-compared");
                        let wit = |what: &str, detail: serde_json::Value| {
                            json!({"program": c.name, "source": c.src.as_ref().map(|s| truncate(s, 4000)), "story_seed": story_seed, "history": hist.ops.iter().map(|o| o.show()).collect::<Vec<_>>(), "what": what, "detail": detail, "first_run_log": recs_json(&hist.recs)})
                        };
                        if let Some(d) = cmp_recs(&hist.recs, &recs, &opts) {
                            rep.violation(&format!("depends-on-earlier-plays-in-the-thread/{}", d.field), wit("a run in a fresh thread differs from the run made after other plays (another seed, other programs) on this thread", d.to_json()));
                        } else if let Some(d) = cmp_state(&hist.final_state, &state, true) {
                            rep.violation("depends-on-earlier-plays-in-the-thread/final-state", wit("final variables or visit counts differ", d.to_json()));
                        }
                    }
                    _ => rep.inconclusive("fresh-thread-run-failed"),
                }
            }
            let tr: String = hist.recs.iter().map(|r| format!("{:?}|{:?}|{:?}|{:?}\n", r.op, r.res, r.snap, crate::lockstep::canon_events(&r.events))).collect();
            let save_s = first_save.map(|s| s.to_string()).unwrap_or_default();
            // the story seed is fixed by the host, so the save is comparable across processes
            digests.push((format!("{}#{si}|{h}", c.name), fnv(&format!("{compiled_hash}|{tr}|{save_s}"))));
            if sampled < 3 && hist.ops.len() > 8 && c.name.starts_with("gen-") {
                sampled += 1;
                rep.sample(json!({"program": c.name, "source": c.src.as_ref().map(|s| truncate(s, 1200)), "history": hist.ops.iter().map(|o| o.show()).collect::<Vec<_>>(), "repeats": repeats + 1,
                    "log_head": recs_json(&hist.recs[..hist.recs.len().min(6)])}));
            }
        }
    }
    if let Some(dir) = cfg.get("hashes-dir")
        && let Ok(mut f) = std::fs::File::create(format!("{dir}/hashes-{}-{}.txt", cfg.get("run-label").unwrap_or(profile), cfg.get_u64("shard", 0)))
    {
        for (k, h) in digests.iter() {
            let _ = writeln!(f, "{h:016x} {k}");
        }
    }
    rep.finish()
}

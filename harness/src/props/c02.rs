//! C02 — saving and loading preserves all future behaviour.
use crate::history::{HistCfg, gen_history};
use crate::lockstep::{CmpOpts, cmp_rec, cmp_state};
use crate::player::{HostCfg, Op, Player, recs_json};
use crate::programs::{Compiled, GenOutcome, corpus_stories, generated};
use crate::r#gen::build::GenCfg;
use crate::rng::{Rng, fnv};
use crate::util::{Cfg, Report, truncate};
use serde_json::{Value, json};

pub fn host_for(c: &Compiled, seed: i32) -> HostCfg {
    HostCfg {
        handler: false,
        fallbacks: true,
        fuel: Some(30_000),
        seed: Some(seed),
        bind: c.info.externals.keys().map(|k| (k.clone(), true)).collect(),
        observe: vec![],
    }
}

fn json_diff_paths(a: &Value, b: &Value, path: String, out: &mut Vec<String>) {
    if out.len() > 6 {
        return;
    }
    match (a, b) {
        (Value::Object(x), Value::Object(y)) => {
            let mut keys: Vec<&String> = x.keys().chain(y.keys()).collect();
            keys.sort();
            keys.dedup();
            for k in keys {
                match (x.get(k), y.get(k)) {
                    (Some(p), Some(q)) => json_diff_paths(p, q, format!("{path}/{k}"), out),
                    _ => out.push(format!("{path}/{k} (present on one side only)")),
                }
            }
        }
        (Value::Array(x), Value::Array(y)) => {
            if x.len() != y.len() {
                out.push(format!("{path} (array length {} vs {})", x.len(), y.len()));
            } else {
                for (i, (p, q)) in x.iter().zip(y.iter()).enumerate() {
                    json_diff_paths(p, q, format!("{path}/{i}"), out);
                }
            }
        }
        _ => {
            if a != b {
                out.push(format!("{path}: {} vs {}", truncate(&a.to_string(), 80), truncate(&b.to_string(), 80)));
            }
        }
    }
}

/// generic key of a save-json path: digits and flow names removed
fn generic(path: &str) -> String {
    let p = path.split(':').next().unwrap_or(path);
    let p = p.split(" (").next().unwrap_or(p);
    p.split('/')
        .map(|c| if c.chars().all(|ch| ch.is_ascii_digit()) && !c.is_empty() { "#" } else { c })
        .collect::<Vec<_>>()
        .join("/")
}

pub fn check_history(rep: &mut Report, c: &Compiled, host: &HostCfg, ops: &[Op], control: &[crate::player::Rec], situ: &[String], boundaries: &[usize]) {
    let opts = CmpOpts::default();
    for &b in boundaries {
        // control player up to b
        let Ok(mut p) = Player::new(c.json.clone(), c.info.clone(), host.clone()) else { return };
        for op in &ops[..=b] {
            p.apply(op);
        }
        if p.story.has_error() || p.fuel_hit {
            rep.inconclusive("save-point-in-error-state");
            continue;
        }
        let sit = crate::history::situation(&mut p);
        let before_snap = p.snap();
        let before_state = p.full_state();
        let save_a = p.canonical_save();
        let r = p.apply(&Op::SaveLoadFresh);
        let case_hash = fnv(&format!("{}|{:?}|{}", c.name, &ops[..=b], b));
        rep.case(Some(case_hash));
        rep.count(&format!("save-point:{sit}"));
        let witness = |what: &str, detail: Value, treated: &[crate::player::Rec]| {
            json!({"program": c.name, "source": c.src, "history": ops.iter().map(|o| o.show()).collect::<Vec<_>>(),
                "save_after_op_index": b, "situation": sit, "what": what, "detail": detail,
                "control_log": recs_json(control), "treated_log_after_load": recs_json(treated)})
        };
        if let Err((k, m)) = &r.res {
            rep.violation(&format!("save-load/failed/{k}/{sit}"), witness("save or load returned an error", json!(m), &[]));
            continue;
        }
        // immediate comparison
        let mut after = r.snap.clone();
        after.warnings = before_snap.warnings.clone(); // warnings list is not part of the saved state by design
        if after != before_snap {
            let field = if after.can_continue != before_snap.can_continue {
                "can_continue"
            } else if after.text != before_snap.text {
                "text"
            } else if after.tags != before_snap.tags {
                "tags"
            } else if after.choices != before_snap.choices {
                "choices"
            } else {
                "errors"
            };
            rep.violation(
                &format!("save-load/immediate-{field}/{sit}"),
                witness("state right after load differs", json!({"before": before_snap.to_json(), "after": r.snap.to_json()}), &[]),
            );
            continue;
        }
        if let Some(d) = cmp_state(&before_state, &p.full_state(), true) {
            rep.violation(
                &format!("save-load/immediate-{}/{sit}", d.field.split(' ').next().unwrap_or("")),
                witness("variables/visit counts right after load differ", d.to_json(), &[]),
            );
            continue;
        }
        // second save equivalent to the first
        let save_b = p.canonical_save();
        match (&save_a, &save_b) {
            (Ok(a), Ok(bv)) => {
                if a != bv {
                    let mut diffs = Vec::new();
                    json_diff_paths(a, bv, String::new(), &mut diffs);
                    let g = diffs.first().map(|d| generic(d)).unwrap_or_default();
                    rep.violation(
                        &format!("save-load/resave-differs:{g}/{sit}"),
                        witness("saving the loaded story gives a different save", json!(diffs), &[]),
                    );
                    continue;
                }
                rep.count("resaves-compared-equal");
            }
            _ => {
                rep.violation(&format!("save-load/save-failed/{sit}"), witness("save_state failed", json!(null), &[]));
                continue;
            }
        }
        // continuation
        let mut treated = Vec::new();
        let mut div = None;
        for (i, op) in ops.iter().enumerate().skip(b + 1) {
            let rec = p.apply(op);
            let d = cmp_rec(i, &control[i], &rec, &opts);
            treated.push(rec);
            if d.is_some() {
                div = d;
                break;
            }
        }
        rep.count_n("continuation-ops-compared", treated.len() as u64);
        if let Some(d) = div {
            rep.violation(
                &format!("save-load/later-{}/{sit}", d.field),
                witness("the restored story diverges later", d.to_json(), &treated),
            );
            continue;
        }
        let _ = situ;
    }
}

pub fn run(cfg: &Cfg) -> i32 {
    let mut rep = Report::new(
        cfg,
        "exploration",
        "case = (program, host-call history, save point): the story is saved at the point, loaded into a freshly constructed story with the same host bindings, and compared with the uninterrupted control: state right after load, re-save, every later call of the history, final variables and visit counts. Every boundary of every generated history is a save point. Non-trivial = every case (a save of a running story); distinct by (program, history prefix).",
        cfg.pick(300, 20000),
    );
    rep.assumptions.push("the control run (same program, same seed, no save) is the reference; defects that affect it identically are out of scope (C01)".into());
    let nprog = cfg.get_u64("programs", cfg.pick(60, 8000));
    let nhist = cfg.pick(3, 6);
    let mut gc = GenCfg::rich();
    gc.floats = true;
    let mut stories: Vec<Compiled> = Vec::new();
    let corpus = corpus_stories(&cfg.corpus_dir(), true, !cfg.quick(), 3000);
    let ncorpus = cfg.pick(25, corpus.len());
    let mut crng = Rng::derive(cfg.seed, "C02-corpus", 0);
    let mut idx: Vec<usize> = (0..corpus.len()).collect();
    crng.shuffle(&mut idx);
    for i in idx.into_iter().take(ncorpus) {
        stories.push(corpus[i].clone());
    }
    for i in 0..nprog {
        match generated(cfg.seed, "C02", i, &gc) {
            GenOutcome::Ok(c) => stories.push(c),
            _ => rep.inconclusive("generated-program-did-not-compile"),
        }
    }
    let mut sampled = 0;
    for (si, c) in stories.iter().enumerate() {
        if !cfg.mine(si as u64) {
            continue;
        }
        for h in 0..nhist {
            let mut rng = Rng::derive(cfg.seed, "C02-hist", (si * 100 + h) as u64);
            let hc = HistCfg {
                max_ops: cfg.pick(30, 60),
                flows: h % 3 == 1,
                jumps: h % 3 == 2,
                cont_max: false,
                set_vars: h % 2 == 1,
                stop_at_end: true, bad_calls: false,
                jump_targets: None,
            };
            let host = host_for(c, 5 + h as i32);
            let hist = match std::panic::catch_unwind(std::panic::AssertUnwindSafe(|| gen_history(c, &host, &mut rng, &hc))) {
                Ok(Ok(h)) => h,
                Ok(Err(_)) => {
                    rep.inconclusive("story-did-not-load");
                    continue;
                }
                Err(_) => {
                    rep.inconclusive("control-run-panicked (C04's business)");
                    continue;
                }
            };
            if hist.fuel {
                rep.inconclusive("fuel-exhausted-in-control");
                continue;
            }
            if hist.ops.is_empty() {
                continue;
            }
            let boundaries: Vec<usize> = (0..hist.ops.len()).collect();
            let r = std::panic::catch_unwind(std::panic::AssertUnwindSafe(|| {
                check_history(&mut rep, c, &host, &hist.ops, &hist.recs, &hist.situ, &boundaries)
            }));
            if r.is_err() {
                rep.panic_caught(
                    "save-load",
                    json!({"program": c.name, "source": c.src, "history": hist.ops.iter().map(|o| o.show()).collect::<Vec<_>>()}),
                );
            }
            if sampled < 3 && hist.ops.len() > 8 {
                sampled += 1;
                rep.sample(json!({"program": c.name, "source": c.src.as_ref().map(|s| truncate(s, 1500)),
                    "history": hist.ops.iter().map(|o| o.show()).collect::<Vec<_>>(),
                    "save_points": hist.ops.len(), "control_log": recs_json(&hist.recs[..hist.recs.len().min(12)])}));
            }
        }
    }
    rep.count_n("stories", stories.len() as u64);
    rep.finish()
}

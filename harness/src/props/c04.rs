//! C04 — story faults are reported as errors; the runtime never panics; int arithmetic wraps; reset recovers.
use crate::history::{HistCfg, gen_history_on};
use crate::lockstep::{CmpOpts, cmp_rec};
use crate::player::{HostCfg, Op, Player, recs_json};
use crate::programs::{Compiled, GenOutcome, corpus_stories, from_json, generated};
use crate::r#gen::build::GenCfg;
use crate::rng::{Rng, fnv};
use crate::util::{Cfg, Report, take_last_panic, truncate};
use serde_json::json;
use std::io::Write;

const EXTREMES: &[i64] = &[0, 1, -1, 2, -2, 3, 7, 46341, 65536, 2147483647, -2147483647, 2147483646, 1073741824];

fn lit(v: i64) -> String {
    if v < 0 { format!("({v})") } else { v.to_string() }
}

/// A program of integer expressions over extreme operands with the wrapped results computed here.
fn arithmetic_program(rng: &mut Rng, n: usize) -> (String, Vec<String>) {
    let mut src = String::from("VAR lo = -2147483647\n~ lo = lo - 1\nVAR z = 0\n");
    let mut expected = Vec::new();
    for i in 0..n {
        let a = *rng.pick(EXTREMES) as i32;
        let b = *rng.pick(EXTREMES) as i32;
        let use_lo = rng.chance(1, 5);
        let (a_txt, a_val) = if use_lo { ("lo".to_string(), i32::MIN) } else { (lit(a as i64), a) };
        let (op, val): (&str, Option<i32>) = match rng.below(6) {
            0 => ("+", Some(a_val.wrapping_add(b))),
            1 => ("-", Some(a_val.wrapping_sub(b))),
            2 => ("*", Some(a_val.wrapping_mul(b))),
            3 => ("/", if b == 0 { None } else { Some(a_val.wrapping_div(b)) }),
            4 => ("%", if b == 0 { None } else { Some(a_val.wrapping_rem(b)) }),
            _ => ("neg", Some(a_val.wrapping_neg())),
        };
        let Some(val) = val else { continue };
        if op == "neg" {
            src.push_str(&format!("r{i} {{-{a_txt}}}\n"));
        } else {
            src.push_str(&format!("r{i} {{{a_txt} {op} {}}}\n", lit(b as i64)));
        }
        expected.push(format!("r{i} {val}\n"));
    }
    // known faults at the end: each must reach the host as an error
    match rng.below(3) {
        0 => src.push_str("fault {5 / z}\n"),
        1 => src.push_str("fault {5 % z}\n"),
        _ => src.push_str("~ lo = 7 / z\n"),
    }
    src.push_str("after the fault\n-> END\n");
    (src, expected)
}

/// Source-level mutations that keep most programs compilable but make them fault-prone.
fn mutate_source(src: &str, rng: &mut Rng) -> (String, String) {
    let mut lines: Vec<String> = src.lines().map(|s| s.to_string()).collect();
    let kind = rng.below(9);
    let label;
    match kind {
        0 => {
            label = "number-to-extreme";
            // replace one decimal literal
            let idx: Vec<usize> = (0..lines.len()).filter(|i| lines[*i].chars().any(|c| c.is_ascii_digit()) && !lines[*i].starts_with("===")).collect();
            if let Some(&i) = idx.get(rng.below(idx.len().max(1))) {
                let l = lines[i].clone();
                let bytes: Vec<char> = l.chars().collect();
                let pos: Vec<usize> = (0..bytes.len()).filter(|p| bytes[*p].is_ascii_digit() && (*p == 0 || (!bytes[*p - 1].is_ascii_alphanumeric() && bytes[*p - 1] != '_'))).collect();
                if let Some(&p) = pos.get(rng.below(pos.len().max(1))) {
                    let mut e = p;
                    while e < bytes.len() && bytes[e].is_ascii_digit() {
                        e += 1;
                    }
                    let rep = rng.pick(&["0", "2147483647", "(-2147483647)", "46341", "65536"]);
                    lines[i] = format!("{}{}{}", bytes[..p].iter().collect::<String>(), rep, bytes[e..].iter().collect::<String>());
                }
            }
        }
        1 => {
            label = "operator-to-division";
            let idx: Vec<usize> = (0..lines.len()).filter(|i| lines[*i].contains(" + ") || lines[*i].contains(" * ") || lines[*i].contains(" - ")).collect();
            if let Some(&i) = idx.get(rng.below(idx.len().max(1))) {
                let op = rng.pick(&[" / ", " % "]);
                for from in [" + ", " * ", " - "] {
                    if lines[i].contains(from) {
                        lines[i] = lines[i].replacen(from, op, 1);
                        break;
                    }
                }
            }
        }
        2 => {
            label = "delete-divert-line";
            let idx: Vec<usize> = (0..lines.len()).filter(|i| lines[*i].trim_start().starts_with("->") ).collect();
            if let Some(&i) = idx.get(rng.below(idx.len().max(1))) {
                lines.remove(i);
            }
        }
        3 => {
            label = "duplicate-line";
            if !lines.is_empty() {
                let i = rng.below(lines.len());
                let l = lines[i].clone();
                lines.insert(i, l);
            }
        }
        4 => {
            label = "string-where-number";
            let idx: Vec<usize> = (0..lines.len()).filter(|i| lines[*i].trim_start().starts_with("~ gi") && lines[*i].contains(" = ")).collect();
            if let Some(&i) = idx.get(rng.below(idx.len().max(1))) {
                let head = lines[i].split(" = ").next().unwrap_or("").to_string();
                lines[i] = format!("{head} = \"text\"");
            }
        }
        5 => {
            label = "divert-through-int-variable";
            let idx: Vec<usize> = (0..lines.len()).filter(|i| lines[*i].trim() == "-> END" || lines[*i].trim() == "-> kz").collect();
            if let Some(&i) = idx.get(rng.below(idx.len().max(1))) {
                let indent: String = lines[i].chars().take_while(|c| c.is_whitespace()).collect();
                lines[i] = format!("{indent}-> gi0");
            }
        }
        6 => {
            label = "delete-tunnel-return";
            let idx: Vec<usize> = (0..lines.len()).filter(|i| lines[*i].trim() == "->->").collect();
            if let Some(&i) = idx.get(rng.below(idx.len().max(1))) {
                lines.remove(i);
            }
        }
        7 => {
            label = "seed-random-extreme";
            let idx: Vec<usize> = (0..lines.len()).filter(|i| lines[*i].starts_with("=== k")).collect();
            if let Some(&i) = idx.get(rng.below(idx.len().max(1))) {
                lines.insert(i + 1, "~ SEED_RANDOM(2147483647)".to_string());
                lines.insert(i + 2, format!("seeded {{RANDOM(1, {})}} {{RANDOM(-2147483647, 2147483647)}}", 1 + rng.below(9)));
            }
        }
        _ => {
            label = "delete-return";
            let idx: Vec<usize> = (0..lines.len()).filter(|i| lines[*i].trim_start().starts_with("~ return")).collect();
            if let Some(&i) = idx.get(rng.below(idx.len().max(1))) {
                lines.remove(i);
            }
        }
    }
    (lines.join("\n") + "\n", label.to_string())
}

fn host_for(c: &Compiled, handler: bool, bind: bool) -> HostCfg {
    HostCfg {
        handler,
        fallbacks: true,
        fuel: Some(20_000),
        seed: Some(6),
        bind: if bind { c.info.externals.keys().map(|k| (k.clone(), true)).collect() } else { vec![] },
        observe: c.info.globals.iter().take(3).enumerate().map(|(k, g)| (k, g.clone())).collect(),
    }
}

pub fn run(cfg: &Cfg) -> i32 {
    let profile = if cfg!(debug_assertions) { "debug" } else { "release" };
    let mut rep = Report::new(
        cfg,
        "exploration",
        "case = (compiler-accepted program, host-call history): programs are (a) lists of int expressions over extreme operands whose 32-bit wrapped results are computed by the monitor, (b) generated programs after one source-level fault-prone mutation (number -> 0/extreme, operator -> / or %, deleted divert / tunnel return / function return, string where a number is expected, divert through an int variable, SEED_RANDOM(i32::MAX) + RANDOM over the full range, duplicated line), (c) corpus stories; histories include continues after errors, continue_maximally, save/load, flow switches, path jumps to arbitrary knots (also knots that expect arguments), host assignments; with and without an error handler; externals bound or left to their fallbacks. Monitored: no panic (caught and attributed to a repository function), no process death (journal), (a) printed values equal the wrapped values, every runtime error reaches the host (Err result or handler callback, then can_continue is false), and after a reported error reset_state + replay equals a fresh story. A per-case transcript hash is written for the debug-vs-release comparison done by the driver. Non-trivial = the history executed >= 3 calls; distinct by (program, history).",
        cfg.pick(2_500, 200_000),
    );
    rep.assumptions.push(format!("this worker ran the {profile} profile; the driver compares the per-case transcript hashes of the debug and release workers"));
    let nprog = cfg.get_u64("programs", cfg.pick(2_000, 160_000));
    let mut hashes: Vec<(String, u64)> = Vec::new();
    let mut gc = GenCfg::rich();
    gc.externals = true;
    gc.probe_knot = true;
    let opts = CmpOpts::default();
    let mut sampled = 0;
    let corpus = corpus_stories(&cfg.corpus_dir(), true, true, 3000);
    for i in 0..nprog {
        if !cfg.mine(i) {
            continue;
        }
        let case = format!("prog{i}");
        rep.journal_start(&case);
        let mut rng = Rng::derive(cfg.seed, "C04", i);
        // ---- choose the program
        let (c, kind, expected): (Compiled, String, Option<Vec<String>>) = match i % 5 {
            0 => {
                let (src, exp) = arithmetic_program(&mut rng, 24);
                match std::panic::catch_unwind(|| bladeink_compiler::Compiler::new().compile(&src)) {
                    Ok(Ok(j)) => match from_json(&format!("arith-{i}"), j, Some(src)) {
                        Some(c) => (c, "arithmetic".into(), Some(exp)),
                        None => continue,
                    },
                    _ => {
                        rep.inconclusive("arithmetic-program-did-not-compile");
                        continue;
                    }
                }
            }
            4 if !corpus.is_empty() => (corpus[rng.below(corpus.len())].clone(), "corpus".into(), None),
            _ => match generated(cfg.seed, "C04", i, &gc) {
                GenOutcome::Ok(c0) => {
                    let (msrc, label) = mutate_source(c0.src.as_ref().unwrap(), &mut rng);
                    match std::panic::catch_unwind(|| bladeink_compiler::Compiler::new().compile(&msrc)) {
                        Ok(Ok(j)) => match from_json(&format!("gen-C04-s{}-{i}+{label}", cfg.seed), j, Some(msrc)) {
                            Some(c) => (c, format!("mutated:{label}"), None),
                            None => continue,
                        },
                        Ok(Err(_)) => {
                            rep.inconclusive("mutated-program-rejected-by-compiler");
                            continue;
                        }
                        Err(_) => {
                            let _ = take_last_panic();
                            rep.inconclusive("compiler-panicked (C06's business)");
                            continue;
                        }
                    }
                }
                _ => continue,
            },
        };
        rep.count(&format!("program:{kind}"));
        // ---- histories
        for h in 0..cfg.pick(3, 6) as u64 {
            let handler = h % 2 == 0;
            let host = host_for(&c, handler, h % 3 != 2);
            let plain = kind == "arithmetic" && h == 0;
            let hc = HistCfg {
                max_ops: 40,
                flows: h % 3 == 1,
                jumps: h % 2 == 1,
                cont_max: h % 3 == 0,
                set_vars: h % 2 == 0 && !plain,
                stop_at_end: true,
                bad_calls: h >= 1,
                // jump anywhere: also into knots that expect arguments, functions, tunnels
                jump_targets: Some(c.info.knots.clone()),
            };
            let mut hrng = Rng::derive(cfg.seed, "C04-hist", i * 10 + h);
            let witness_base = json!({"program": c.name, "kind": kind, "source": c.src, "handler": handler, "profile": profile});
            let r = std::panic::catch_unwind(std::panic::AssertUnwindSafe(|| -> Result<(Player, crate::history::History), String> {
                let mut p = Player::new(c.json.clone(), c.info.clone(), host.clone())?;
                let hist = gen_history_on(&mut p, &c, &mut hrng, &hc);
                Ok((p, hist))
            }));
            let (mut p, hist) = match r {
                Err(_) => {
                    let mut w = witness_base.clone();
                    w["history_variant"] = json!(h);
                    rep.case(Some(fnv(&format!("{}|{h}", c.name))));
                    rep.panic_caught("play", w);
                    continue;
                }
                Ok(Err(_)) => {
                    rep.inconclusive("story-did-not-load");
                    continue;
                }
                Ok(Ok(x)) => x,
            };
            rep.case(if hist.ops.len() >= 3 { Some(fnv(&format!("{}|{h}", c.name))) } else { None });
            if hist.fuel {
                rep.count("fuel-exhausted(runaway story stopped by the hook)");
            }
            let tr: String = hist.recs.iter().map(|r| format!("{:?}|{:?}|{:?}|{:?}\n", r.op, r.res, r.snap, crate::lockstep::canon_events(&r.events))).collect();
            hashes.push((format!("{}#{i}|{h}", c.name), fnv(&tr)));
            if cfg.get("dump-case") == Some(&format!("{}#{i}|{h}", c.name)) {
                println!("DUMP {}|{h}\n{tr}", c.name);
            }
            // (a) wrapped values
            if let Some(exp) = &expected
                && h == 0
            {
                // (continue_maximally returns several lines at once)
                let all: String = hist.recs.iter().filter(|r| r.op.starts_with("Cont")).filter_map(|r| r.res.clone().ok()).collect();
                let got: Vec<String> = all.split_inclusive('\n').filter(|t| t.starts_with('r')).map(|t| t.to_string()).collect();
                rep.count_n("wrapped-results-compared", exp.len() as u64);
                if &got != exp {
                    let first = exp.iter().zip(got.iter()).find(|(a, b)| a != b).map(|(a, b)| json!({"expected": a, "got": b}));
                    let mut w = witness_base.clone();
                    w["first_difference"] = json!(first);
                    w["expected_lines"] = json!(exp.len());
                    w["got_lines"] = json!(got.len());
                    w["log"] = recs_json(&hist.recs);
                    rep.violation("arithmetic/wrapped-value", w);
                }
            }
            // predicted faults: the division by zero at the end of an arithmetic program, and falling off the end
            // of kprobe after a jump with call-stack reset, must reach the host
            if expected.is_some() && h == 0 {
                let surfaced = hist.recs.iter().any(|r| {
                    matches!(&r.res, Err((_, m)) if m.contains("zero")) || r.events.iter().any(|e| e.starts_with("handler E") && e.contains("zero"))
                });
                let printed_after = hist.recs.iter().any(|r| matches!(&r.res, Ok(t) if t.contains("after the fault")));
                rep.count("predicted-fault:division-by-zero");
                if !surfaced || printed_after {
                    let mut w = witness_base.clone();
                    w["log_tail"] = recs_json(&hist.recs[hist.recs.len().saturating_sub(4)..]);
                    w["surfaced"] = json!(surfaced);
                    w["story_went_on_past_the_fault"] = json!(printed_after);
                    rep.violation("fault-not-reported/division-by-zero", w);
                }
            }
            let could_play = hist.recs.iter().any(|r| r.op == "Cont" && r.res.is_ok());
            if c.info.knots.iter().any(|k| k == "kprobe") && !p.story.has_error() && !hist.fuel && could_play {
                let r = std::panic::catch_unwind(std::panic::AssertUnwindSafe(|| {
                    let before = p.recs.len();
                    p.apply(&Op::ChoosePath("kprobe".into(), true));
                    for _ in 0..3 {
                        if !p.story.can_continue() {
                            break;
                        }
                        p.apply(&Op::Cont);
                    }
                    p.recs[before..].to_vec()
                }));
                rep.count("predicted-fault:out-of-content-after-jump");
                match r {
                    Err(_) => {
                        rep.panic_caught("probe-jump", witness_base.clone());
                    }
                    Ok(tail) => {
                        let surfaced = tail.iter().any(|r| {
                            matches!(&r.res, Err((_, m)) if m.contains("ran out of content")) || r.events.iter().any(|e| e.starts_with("handler E") && e.contains("ran out of content"))
                        });
                        if !surfaced {
                            let mut w = witness_base.clone();
                            w["history"] = json!(hist.ops.iter().map(|o| o.show()).collect::<Vec<_>>());
                            w["after_jump_to_kprobe"] = recs_json(&tail);
                            rep.violation("fault-not-reported/out-of-content-after-jump", w);
                        }
                    }
                }
            }
            // errors must be visible to the host and stop the story
            let mut saw_error = false;
            for (k, r) in hist.recs.iter().enumerate() {
                let err_now = r.res.is_err() && matches!(&r.res, Err((_, m)) if m.contains("RUNTIME ERROR") || m.contains("Ink had"));
                let handler_err = r.events.iter().any(|e| e.starts_with("handler E"));
                if err_now || handler_err {
                    saw_error = true;
                    rep.count(if handler_err { "error-delivered:handler" } else { "error-delivered:Err" });
                    if !handler && r.snap.can_continue && r.op == "Cont" {
                        let mut w = witness_base.clone();
                        w["op_index"] = json!(k);
                        w["log"] = recs_json(&hist.recs);
                        rep.violation("error/story-continues-after-unhandled-error", w);
                    }
                }
            }
            // after a reported error: reset, then play like a fresh story
            if saw_error {
                let rr = std::panic::catch_unwind(std::panic::AssertUnwindSafe(|| -> Result<Option<serde_json::Value>, String> {
                    p.apply(&Op::Reset);
                    let mut fresh = Player::new(c.json.clone(), c.info.clone(), host.clone())?;
                    let mut r2 = Rng::derive(cfg.seed, "C04-h2", i * 10 + h);
                    let h2cfg = HistCfg { max_ops: 16, ..Default::default() };
                    let h2 = gen_history_on(&mut fresh, &c, &mut r2, &h2cfg);
                    for (k, op) in h2.ops.iter().enumerate() {
                        let rec = p.apply(op);
                        if let Some(d) = cmp_rec(k, &h2.recs[k], &rec, &opts) {
                            return Ok(Some(json!({"after_reset_history": h2.ops.iter().map(|o| o.show()).collect::<Vec<_>>(), "divergence": d.to_json()})));
                        }
                    }
                    Ok(None)
                }));
                rep.count("reset-after-error-checked");
                match rr {
                    Err(_) => {
                        let mut w = witness_base.clone();
                        w["history"] = json!(hist.ops.iter().map(|o| o.show()).collect::<Vec<_>>());
                        rep.panic_caught("reset-after-error", w);
                    }
                    Ok(Ok(Some(d))) => {
                        let mut w = witness_base.clone();
                        w["history"] = json!(hist.ops.iter().map(|o| o.show()).collect::<Vec<_>>());
                        w["detail"] = d;
                        rep.violation("reset-after-error/differs-from-fresh", w);
                    }
                    _ => {}
                }
            }
            if sampled < 3 && saw_error && kind.starts_with("mutated") {
                sampled += 1;
                rep.sample(json!({"program": c.name, "kind": kind, "source": c.src.as_ref().map(|s| truncate(s, 1200)), "handler": handler,
                    "history": hist.ops.iter().map(|o| o.show()).collect::<Vec<_>>(), "log_tail": recs_json(&hist.recs[hist.recs.len().saturating_sub(4)..])}));
            }
        }
        rep.journal_end(&case);
    }
    if let Some(dir) = cfg.get("hashes-dir")
        && let Ok(mut f) = std::fs::File::create(format!("{dir}/hashes-{profile}-{}.txt", cfg.get_u64("shard", 0)))
    {
        for (k, h) in hashes.iter() {
            let _ = writeln!(f, "{h:016x} {k}");
        }
    }
    rep.extra.insert("profile".into(), json!(profile));
    rep.finish()
}

//! C17 — resetting a story is equivalent to constructing it afresh; a path jump with call-stack reset
//! keeps variables and counts but abandons tunnels, threads and functions.
use crate::history::{HistCfg, gen_history_on, situation};
use crate::lockstep::{CmpOpts, cmp_rec, cmp_state};
use crate::player::{HostCfg, Op, Player, recs_json};
use crate::programs::{Compiled, GenOutcome, corpus_stories, generated};
use crate::r#gen::build::GenCfg;
use crate::rng::{Rng, fnv};
use crate::util::{Cfg, Report, truncate};
use serde_json::json;

fn host_for(c: &Compiled, handler: bool) -> HostCfg {
    HostCfg {
        handler,
        fallbacks: true,
        fuel: Some(30_000),
        seed: Some(23),
        bind: c.info.externals.keys().map(|k| (k.clone(), true)).collect(),
        observe: c.info.globals.iter().enumerate().map(|(k, g)| (k, g.clone())).collect(),
    }
}

pub fn run(cfg: &Cfg) -> i32 {
    let mut rep = Report::new(
        cfg,
        "exploration",
        "case A = (program, history H1, continuation H2): a story is driven through H1 (flows, jumps, host assignments, sometimes ending in an error or mid-line), reset (same seed), then driven through H2 in lockstep with a freshly constructed story with the same bindings/observers/handler; snapshot and all globals/visit counts right after the reset and every record of H2 must be equal. case B = (program, history, jump): choose_path_string(kprobe, reset_call_stack=true) from an arbitrary point must keep all globals and visit counts (except the target's own) and leave nothing on the call stack: kprobe prints one line and falls off the end, so the error text tells whether a tunnel/function/thread frame survived. Non-trivial = all; distinct by (program, H1, kind).",
        cfg.pick(800, 100000),
    );
    let nprog = cfg.get_u64("programs", cfg.pick(300, 40000));
    let mut gc = GenCfg::rich();
    gc.probe_knot = true;
    gc.thread_boost = true;
    let opts = CmpOpts::default();
    // one story at a time: nothing but the current case is kept in memory
    let corpus = corpus_stories(&cfg.corpus_dir(), true, false, 3000);
    let mut crng = Rng::derive(cfg.seed, "C17-corpus", 0);
    let mut idx: Vec<usize> = (0..corpus.len()).collect();
    crng.shuffle(&mut idx);
    let ncorpus = cfg.pick(20, corpus.len()).min(corpus.len());
    idx.truncate(ncorpus);
    let mut sampled = 0;
    for si in 0..ncorpus + nprog as usize {
        if !cfg.mine(si as u64) {
            continue;
        }
        let story: Compiled = if si < ncorpus {
            corpus[idx[si]].clone()
        } else {
            match generated(cfg.seed, "C17", (si - ncorpus) as u64, &gc) {
                GenOutcome::Ok(c) => c,
                _ => {
                    rep.inconclusive("generated-program-did-not-compile");
                    continue;
                }
            }
        };
        let c = &story;
        let has_probe = c.info.knots.iter().any(|k| k == "kprobe");
        for h in 0..cfg.pick(4, 8) as usize {
            let mut rng = Rng::derive(cfg.seed, "C17-hist", (si * 100 + h) as u64);
            let host = host_for(c, h % 2 == 1);
            let h1cfg = HistCfg {
                max_ops: 3 + rng.below(cfg.pick(25, 45)),
                flows: h % 3 == 1,
                jumps: h % 4 == 2,
                cont_max: false,
                set_vars: true,
                stop_at_end: true, bad_calls: false,
                jump_targets: None,
            };
            let run = std::panic::catch_unwind(std::panic::AssertUnwindSafe(|| -> Result<(), String> {
                let mut treated = Player::new(c.json.clone(), c.info.clone(), host.clone())?;
                let h1 = gen_history_on(&mut treated, c, &mut rng, &h1cfg);
                if h1.fuel {
                    rep.inconclusive("fuel-in-H1");
                    return Ok(());
                }
                let mut h1_ops: Vec<String> = h1.ops.iter().map(|o| o.show()).collect();
                // sometimes finish H1 with an error (falling off the end of kprobe) or a load of an earlier point
                let mut ended_in_error = false;
                if has_probe && h % 4 == 3 {
                    for op in [Op::ChoosePath("kprobe".into(), false), Op::Cont, Op::Cont] {
                        if matches!(op, Op::Cont) && !treated.story.can_continue() {
                            break;
                        }
                        treated.apply(&op);
                        h1_ops.push(op.show());
                    }
                    ended_in_error = treated.story.has_error() || treated.recs.iter().any(|r| r.events.iter().any(|e| e.starts_with("handler E")));
                }
                if h % 5 == 4 {
                    treated.apply(&Op::SaveLoadSame);
                    h1_ops.push(Op::SaveLoadSame.show());
                }
                let sit = format!("{}{}", situation(&mut treated), if ended_in_error { "+error" } else { "" });
                let last_knot: Option<String> = treated
                    .recs
                    .iter()
                    .rev()
                    .find_map(|r| r.pos.clone())
                    .map(|p| p.split('.').next().unwrap_or("").to_string());

                // ---------------- case B: jump with call-stack reset
                if has_probe && h % 2 == 0 && !treated.story.has_error() {
                    // jump on a copy of the situation: replay the same ops on another instance
                    let mut j = Player::new(c.json.clone(), c.info.clone(), HostCfg { handler: false, ..host.clone() })?;
                    for op in h1.ops.iter() {
                        j.apply(op);
                    }
                    if !j.story.has_error() && !j.fuel_hit {
                        let sitj = situation(&mut j);
                        let before = j.full_state();
                        let r = j.apply(&Op::ChoosePath("kprobe".into(), true));
                        rep.case(Some(fnv(&format!("{}|{:?}|jump", c.name, h1.ops))));
                        rep.count(&format!("jump-from:{sitj}"));
                        let wit = |what: &str, detail: serde_json::Value, j: &Player| {
                            json!({"program": c.name, "source": c.src, "history": h1.ops.iter().map(|o| o.show()).collect::<Vec<_>>(),
                                "then": "ChoosePath(\"kprobe\", true), Cont, Cont", "what": what, "detail": detail, "situation": sitj,
                                "log": recs_json(&j.recs[j.recs.len().saturating_sub(6)..])})
                        };
                        if r.res.is_err() {
                            rep.violation("jump-reset/refused", wit("jump with call-stack reset was refused", json!(format!("{:?}", r.res)), &j));
                        } else {
                            let mut after = j.full_state();
                            after.visits.retain(|v| !v.0.starts_with("kprobe"));
                            let mut b2 = before.clone();
                            b2.visits.retain(|v| !v.0.starts_with("kprobe"));
                            if let Some(d) = cmp_state(&b2, &after, true) {
                                rep.violation(&format!("jump-reset/changed-{}", d.field.split(' ').next().unwrap_or("")), wit("the jump changed variables or visit counts", d.to_json(), &j));
                            } else {
                                let mut lines = Vec::new();
                                let mut err = None;
                                for _ in 0..4 {
                                    if !j.story.can_continue() {
                                        break;
                                    }
                                    let r = j.apply(&Op::Cont);
                                    match &r.res {
                                        Ok(t) => lines.push(t.clone()),
                                        Err((_, m)) => {
                                            err = Some(m.clone());
                                            break;
                                        }
                                    }
                                }
                                // the line and the error may arrive in the same continue
                                let last_text = j.recs.last().map(|r| r.snap.text.clone()).unwrap_or_default();
                                let ok_lines = (lines.len() == 1 && lines[0] == "probe line\n") || (lines.is_empty() && last_text == "probe line\n");
                                let ok_err = err.as_ref().map(|m| m.contains("ran out of content")).unwrap_or(false)
                                    && err.as_ref().map(|m| m.contains("Ink had 1 error.")).unwrap_or(false);
                                if !ok_lines || !ok_err {
                                    let kind = if !ok_lines { "marker-of-abandoned-caller-or-extra-text" } else { "leftover-frame" };
                                    rep.violation(&format!("jump-reset/{kind}"), wit("after the jump the story did not behave like a bare call stack at kprobe", json!({"lines": lines, "error": err}), &j));
                                }
                            }
                        }
                    }
                }

                // ---------------- case A: reset == fresh
                let r = treated.apply(&Op::Reset);
                let mut fresh = Player::new(c.json.clone(), c.info.clone(), host.clone())?;
                rep.case(Some(fnv(&format!("{}|{:?}|reset", c.name, h1_ops))));
                rep.count(&format!("reset-from:{sit}"));
                let wit = |what: &str, detail: serde_json::Value, t: &[crate::player::Rec], f: &[crate::player::Rec]| {
                    json!({"program": c.name, "source": c.src, "history_before_reset": h1_ops, "situation": sit, "what": what, "detail": detail,
                        "fresh_log": recs_json(f), "reset_log": recs_json(t)})
                };
                if let Err(e) = &r.res {
                    rep.violation("reset/refused", wit("reset_state failed", json!(format!("{e:?}")), &[], &[]));
                    return Ok(());
                }
                let ts = treated.snap();
                let fs = fresh.snap();
                if ts != fs {
                    rep.violation(&format!("reset/immediate-snapshot/{}", sit.split('+').next().unwrap_or("")), wit("snapshot right after reset differs from a fresh story", json!({"reset": ts.to_json(), "fresh": fs.to_json()}), &[], &[]));
                    return Ok(());
                }
                if let Some(d) = cmp_state(&fresh.full_state(), &treated.full_state(), true) {
                    rep.violation(&format!("reset/immediate-{}", d.field.split(' ').next().unwrap_or("")), wit("variables or visit counts after reset differ from a fresh story", d.to_json(), &[], &[]));
                    return Ok(());
                }
                // H2 on the fresh control, replayed on the reset story
                let mut rng2 = Rng::derive(cfg.seed, "C17-h2", (si * 100 + h) as u64);
                // sometimes the first thing after the reset is a jump back to the knot the old history was in
                let mut pre: Vec<Op> = Vec::new();
                if c.name.starts_with("gen-") && h % 3 != 1 {
                    let k = last_knot.clone().filter(|k| k.starts_with('k') && k != "kprobe").or_else(|| c.info.knots.iter().find(|k| k.starts_with('k') && k.as_str() != "kprobe").cloned());
                    if let Some(k) = k {
                        pre.push(Op::ChoosePath(k, h % 2 == 0));
                    }
                }
                let mut pre_recs = Vec::new();
                for op in pre.iter() {
                    pre_recs.push((fresh.apply(op), treated.apply(op)));
                }
                for (i, (f, t)) in pre_recs.iter().enumerate() {
                    if let Some(d) = cmp_rec(i, f, t, &opts) {
                        rep.violation(&format!("reset/jump-after-reset-{}", d.field), wit("a path jump right after the reset behaves differently from a fresh story", d.to_json(), &[t.clone()], &[f.clone()]));
                        return Ok(());
                    }
                }
                let h2cfg = HistCfg { max_ops: cfg.pick(30, 50), flows: h % 2 == 0, jumps: false, cont_max: h % 3 == 0, set_vars: true, stop_at_end: true, bad_calls: false, jump_targets: None };
                let h2 = gen_history_on(&mut fresh, c, &mut rng2, &h2cfg);
                if h2.fuel {
                    rep.inconclusive("fuel-in-H2");
                    return Ok(());
                }
                let mut tail = Vec::new();
                for (i, op) in h2.ops.iter().enumerate() {
                    let rec = treated.apply(op);
                    let d = cmp_rec(i, &h2.recs[i], &rec, &opts);
                    tail.push(rec);
                    if let Some(d) = d {
                        rep.violation(&format!("reset/later-{}", d.field), wit("the reset story diverges from the fresh one", json!({"h2": h2.ops.iter().map(|o| o.show()).collect::<Vec<_>>(), "divergence": d.to_json()}), &tail, &h2.recs));
                        return Ok(());
                    }
                }
                rep.count_n("h2-ops-compared", h2.ops.len() as u64);
                if let Some(d) = cmp_state(&h2.final_state, &treated.full_state(), true) {
                    rep.violation("reset/final-state", wit("final state differs", d.to_json(), &tail, &h2.recs));
                    return Ok(());
                }
                if sampled < 3 && h1_ops.len() > 6 && h2.ops.len() > 6 {
                    sampled += 1;
                    rep.sample(json!({"program": c.name, "source": c.src.as_ref().map(|s| truncate(s, 1200)), "history_before_reset": h1_ops, "jump_right_after_reset": pre.iter().map(|o| o.show()).collect::<Vec<_>>(),
                        "situation_at_reset": sit, "history_after_reset": h2.ops.iter().map(|o| o.show()).collect::<Vec<_>>()}));
                }
                Ok(())
            }));
            match run {
                Err(e) => {
                    let msg = e.downcast_ref::<String>().cloned().or_else(|| e.downcast_ref::<&str>().map(|s| s.to_string())).unwrap_or_default();
                    rep.panic_caught("reset", json!({"program": c.name, "source": c.src, "panic": msg}));
                }
                Ok(Err(_)) => rep.inconclusive("story-did-not-load"),
                Ok(Ok(())) => {}
            }
        }
    }
    rep.finish()
}

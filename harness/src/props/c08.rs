//! C08 — how the host slices continuation never changes the story.
use crate::history::{HistCfg, gen_history};
use crate::lockstep::{canon_events, cmp_state};
use crate::player::{HostCfg, Op, Player, Rec, Val, recs_json};
use crate::programs::{Compiled, GenOutcome, generated};
use crate::r#gen::build::GenCfg;
use crate::rng::{Rng, fnv};
use crate::util::{Cfg, Report, truncate};
use serde_json::{Value, json};

const BIG: u64 = 1_000_000;
/// budget marker: finish the paused line with a blocking cont() instead of another continue_async
const FINISH_BLOCKING: u64 = u64::MAX;

/// schedule: for the k-th Cont of the history, the list of budgets to use (empty = one unsliced cont())
type Schedule = Vec<Vec<u64>>;

struct Outcome {
    /// first difference found
    diff: Option<(String, Value)>,
    pauses: u64,
    pauses_in_lookahead: u64,
    probes: u64,
}

fn guarded_probes(c: &Compiled, rng: &mut Rng) -> Vec<(&'static str, Op)> {
    let knot = c.info.knots.iter().find(|k| k.starts_with('k')).cloned().unwrap_or_else(|| "kz".into());
    let g = c.info.globals.first().cloned().unwrap_or_else(|| "gi0".into());
    let mut v = vec![
        ("continue_maximally", Op::ContMax),
        ("reset_state", Op::Reset),
        ("switch_flow", Op::SwitchFlow("fa".into())),
        ("choose_path_string(reset)", Op::ChoosePath(knot.clone(), true)),
        ("choose_path_string(keep)", Op::ChoosePath(knot, false)),
        ("evaluate_function", Op::EvalFn("fn0".into(), vec![Val::Int(1), Val::Str("a".into())])),
        ("observe_variable", Op::Observe(77, g.clone())),
        ("remove_variable_observer", Op::Unobserve(0, Some(g))),
        ("bind_external_function", Op::Bind("probe_ext".into(), true)),
        ("unbind_external_function", Op::Unbind("ext0".into())),
        ("choose_choice_index", Op::Choose(0)),
    ];
    rng.shuffle(&mut v);
    v
}

fn run_schedule(
    c: &Compiled,
    host: &HostCfg,
    ops: &[Op],
    control: &[Rec],
    control_final: &crate::player::FullState,
    sched: &Schedule,
    probe_rng: Option<&mut Rng>,
) -> Result<Outcome, String> {
    let mut p = Player::new(c.json.clone(), c.info.clone(), host.clone())?;
    let mut out = Outcome { diff: None, pauses: 0, pauses_in_lookahead: 0, probes: 0 };
    let mut k = 0;
    let mut prng = probe_rng;
    for (i, op) in ops.iter().enumerate() {
        let ctl = &control[i];
        if !matches!(op, Op::Cont) {
            let r = p.apply(op);
            if r.res != ctl.res || r.snap != ctl.snap {
                out.diff = Some((format!("non-continue-op-{i}"), json!({"control": ctl.to_json(), "sliced": r.to_json()})));
                return Ok(out);
            }
            continue;
        }
        let budgets = sched.get(k).cloned().unwrap_or_default();
        k += 1;
        let mut events: Vec<String> = Vec::new();
        let final_rec;
        if budgets.is_empty() {
            final_rec = p.apply(op);
            events.extend(final_rec.events.clone());
        } else {
            let mut bi = 0;
            loop {
                let b = if bi < budgets.len() { budgets[bi] } else { BIG };
                bi += 1;
                let before = p.story.verif_counters();
                let r = if b == FINISH_BLOCKING { p.apply(&Op::Cont) } else { p.apply(&Op::ContAsync(b)) };
                events.extend(r.events.clone());
                let paused = matches!(&r.res, Ok(s) if s == "paused");
                if !paused {
                    final_rec = r;
                    break;
                }
                out.pauses += 1;
                let after = p.story.verif_counters();
                if after.snapshots_taken > after.snapshots_restored + after.snapshots_discarded
                    || before.snapshots_taken != after.snapshots_taken
                {
                    out.pauses_in_lookahead += 1;
                }
                // while unfinished: text and tags are refused, and so is every guarded call
                if r.snap.text != "<unavailable>" || r.snap.tags != vec!["<unavailable>".to_string()] {
                    out.diff = Some(("current-text-or-tags-readable-while-unfinished".into(), r.snap.to_json()));
                    return Ok(out);
                }
                if let Some(rng) = prng.as_deref_mut() {
                    for (name, probe) in guarded_probes(c, rng).into_iter().take(4) {
                        out.probes += 1;
                        let pr = p.apply(&probe);
                        if pr.res.is_ok() {
                            out.diff = Some((format!("guarded-call-accepted-while-unfinished:{name}"), pr.to_json()));
                            return Ok(out);
                        }
                        if !pr.events.is_empty() {
                            out.diff = Some((format!("callback-during-refused-call:{name}"), pr.to_json()));
                            return Ok(out);
                        }
                    }
                    // read-only call that is not guarded: must not panic
                    let _ = p.story.save_state();
                }
                if bi > 5000 {
                    out.diff = Some(("line-never-completes".into(), json!({"op_index": i})));
                    return Ok(out);
                }
            }
        }
        // compare the completed line with the control's blocking continue
        let text_ok = match (&ctl.res, &final_rec.res) {
            (Ok(t), Ok(_)) => *t == final_rec.snap.text,
            (Err((k1, m1)), Err((k2, m2))) => k1 == k2 && m1 == m2,
            _ => false,
        };
        let field = if !text_ok {
            Some("text")
        } else if ctl.snap.tags != final_rec.snap.tags {
            Some("tags")
        } else if ctl.snap.choices != final_rec.snap.choices {
            Some("choices")
        } else if ctl.snap.can_continue != final_rec.snap.can_continue {
            Some("can_continue")
        } else if ctl.snap.errors != final_rec.snap.errors || ctl.snap.warnings != final_rec.snap.warnings {
            Some("errors")
        } else if canon_events(&ctl.events) != canon_events(&events) {
            Some("callbacks")
        } else {
            None
        };
        if let Some(f) = field {
            out.diff = Some((
                format!("line-{f}"),
                json!({"op_index": i, "budgets": budgets, "control": ctl.to_json(), "sliced_final": final_rec.to_json(), "sliced_events": events}),
            ));
            return Ok(out);
        }
        if p.story.verif_async_active() {
            out.diff = Some(("still-async-after-line-completed".into(), json!({"op_index": i})));
            return Ok(out);
        }
    }
    if let Some(d) = cmp_state(control_final, &p.full_state(), true) {
        out.diff = Some((format!("final-{}", d.field.split(' ').next().unwrap_or("")), d.to_json()));
    }
    Ok(out)
}

pub fn run(cfg: &Cfg) -> i32 {
    let mut rep = Report::new(
        cfg,
        "exploration",
        "case = (program, history, slicing schedule): every cont() of the history is replaced by continue_async calls whose pause positions are set exactly by the virtual-clock hook (pause after b interpreter steps). Schedules: EVERY single pause position of every line (exhaustive for lines up to the step cap), pause-after-every-step, and random multi-pause schedules. Each completed line (text, tags, choices, can_continue, errors, observer and external-function callbacks) and the final globals/visit counts must equal the blocking control; while a line is unfinished current text/tags must be refused and so must a random sample of the guarded calls. Non-trivial = schedules with at least one pause; distinct by (program, history, schedule).",
        cfg.pick(1500, 200000),
    );
    rep.assumptions.push("the virtual clock hook replaces the wall-clock test inside continue_internal's loop at the same place; pause positions between steps are therefore exactly those the wall clock could produce".into());
    let nprog = cfg.get_u64("programs", cfg.pick(40, 8000));
    let step_cap = cfg.pick(60, 200) as u64;
    let mut gc = GenCfg::rich();
    gc.externals = true;
    gc.thread_boost = true;
    let mut sampled = 0;
    let mut total_pos = 0u64;
    let mut covered_pos = 0u64;
    for i in 0..nprog {
        if !cfg.mine(i) {
            continue;
        }
        let c = match generated(cfg.seed, "C08", i, &gc) {
            GenOutcome::Ok(c) => c,
            _ => {
                rep.inconclusive("generated-program-did-not-compile");
                continue;
            }
        };
        let mut rng = Rng::derive(cfg.seed, "C08-hist", i);
        let unsafe_ext = i % 2 == 1;
        let host = HostCfg {
            handler: i % 3 == 0,
            fallbacks: true,
            fuel: Some(30_000),
            seed: Some(9),
            bind: c.info.externals.keys().map(|k| (k.clone(), !unsafe_ext)).collect(),
            observe: c.info.globals.iter().enumerate().map(|(k, g)| (k, g.clone())).collect(),
        };
        let hc = HistCfg { max_ops: cfg.pick(24, 40), flows: false, jumps: false, cont_max: false, set_vars: i % 2 == 0, stop_at_end: true, bad_calls: false, jump_targets: None };
        let hist = match std::panic::catch_unwind(std::panic::AssertUnwindSafe(|| gen_history(&c, &host, &mut rng, &hc))) {
            Ok(Ok(h)) => h,
            _ => {
                rep.inconclusive("control-run-failed");
                continue;
            }
        };
        if hist.fuel || hist.ops.is_empty() {
            rep.inconclusive("fuel-or-empty");
            continue;
        }
        let conts: Vec<usize> = hist.ops.iter().enumerate().filter(|(_, o)| matches!(o, Op::Cont)).map(|(i, _)| i).collect();
        // schedules
        let mut schedules: Vec<(String, Schedule)> = Vec::new();
        for (k, &oi) in conts.iter().enumerate() {
            let steps = hist.recs[oi].steps;
            total_pos += steps.saturating_sub(1);
            if steps > step_cap {
                rep.count("lines-over-step-cap(sampled-only)");
                continue;
            }
            for s in 1..steps {
                let mut sch: Schedule = vec![vec![]; conts.len()];
                sch[k] = vec![s];
                schedules.push((format!("single-pause:line{k}@{s}"), sch));
                covered_pos += 1;
            }
        }
        schedules.push(("pause-after-every-step".into(), vec![vec![1; 4000]; conts.len()]));
        // mixed: a line is started with continue_async, paused once or twice, and finished by a blocking cont()
        for r in 0..cfg.pick(6, 16) {
            let sch: Schedule = (0..conts.len())
                .map(|_| {
                    let mut b: Vec<u64> = (0..1 + rng.below(2)).map(|_| 1 + rng.below(10) as u64).collect();
                    b.push(FINISH_BLOCKING);
                    b
                })
                .collect();
            schedules.push((format!("blocking-finish-{r}"), sch));
        }
        for r in 0..cfg.pick(4, 12) {
            let sch: Schedule = (0..conts.len())
                .map(|_| (0..rng.below(4)).map(|_| 1 + rng.below(12) as u64).collect())
                .collect();
            schedules.push((format!("random-{r}"), sch));
        }
        let mut prng = Rng::derive(cfg.seed, "C08-probe", i);
        for (name, sch) in schedules.iter() {
            let r = std::panic::catch_unwind(std::panic::AssertUnwindSafe(|| {
                run_schedule(&c, &host, &hist.ops, &hist.recs, &hist.final_state, sch, Some(&mut prng))
            }));
            let witness = |what: &str, detail: Value| {
                json!({"program": c.name, "source": c.src, "history": hist.ops.iter().map(|o| o.show()).collect::<Vec<_>>(),
                    "external_functions_lookahead_safe": !unsafe_ext, "schedule": name, "budgets_per_continue": sch.iter().map(|b| b.iter().take(8).map(|x| if *x == FINISH_BLOCKING { "blocking cont()".to_string() } else { x.to_string() }).collect::<Vec<_>>()).collect::<Vec<_>>(),
                    "what": what, "detail": detail, "control_log": recs_json(&hist.recs)})
            };
            match r {
                Err(e) => {
                    let msg = e.downcast_ref::<String>().cloned().or_else(|| e.downcast_ref::<&str>().map(|s| s.to_string())).unwrap_or_default();
                    rep.panic_caught("slicing", witness("panic", json!(msg)));
                }
                Ok(Err(e)) => rep.harness_error(&e),
                Ok(Ok(o)) => {
                    rep.case(if o.pauses > 0 { Some(fnv(&format!("{}|{}", c.name, name))) } else { None });
                    rep.count_n("pauses", o.pauses);
                    rep.count_n("pauses-between-snapshot-and-resolution", o.pauses_in_lookahead);
                    rep.count_n("guarded-call-probes-refused", o.probes);
                    if let Some((sig, detail)) = o.diff {
                        let kind = name.split(':').next().unwrap_or("").split('-').next().unwrap_or("");
                        let _ = kind;
                        rep.violation(&format!("slicing/{sig}"), witness("sliced play differs from blocking play", detail));
                    } else if sampled < 3 && o.pauses > 2 && name.starts_with("random") {
                        sampled += 1;
                        rep.sample(json!({"program": c.name, "source": c.src.as_ref().map(|s| truncate(s, 1000)), "history": hist.ops.iter().map(|o| o.show()).collect::<Vec<_>>(),
                            "schedule": name, "budgets_per_continue": sch, "pauses": o.pauses}));
                    }
                }
            }
        }
    }
    rep.extra.insert("single_pause_positions_total".into(), json!(total_pos));
    rep.extra.insert("single_pause_positions_covered".into(), json!(covered_pos));
    rep.exhaustive = Some(false);
    rep.finish()
}

//! C16 — evaluating an Ink function from the host does not disturb the story.
use crate::history::{HistCfg, gen_history};
use crate::lockstep::{CmpOpts, cmp_state, inject};
use crate::player::{FullState, HostCfg, Op, Val, recs_json};
use crate::programs::{GenOutcome, generated};
use crate::r#gen::ast::Ty;
use crate::r#gen::build::GenCfg;
use crate::rng::{Rng, fnv};
use crate::util::{Cfg, Report, truncate};
use serde_json::json;

fn strip_fn_counts(s: &FullState, fnames: &[String]) -> FullState {
    let mut s = s.clone();
    s.visits.retain(|(p, _)| !fnames.iter().any(|f| p == f || p.starts_with(&format!("{f}."))));
    s
}

pub fn run(cfg: &Cfg) -> i32 {
    let mut rep = Report::new(
        cfg,
        "exploration",
        "case = (program with side-effect-free functions, host-call history, position, call): evaluate_function is injected twice after the position. Monitored: both calls return the same value and text (purity), pending text/tags/choices are unchanged, all globals and all visit counts except the function's own are unchanged, the canonical save is unchanged except for the function's counts, every later record and the final state equal the uninjected control. Refused calls (unknown/blank name, divert-target argument read through get_variable) must return Err and change nothing at all. Non-trivial = all; distinct by (program, history prefix, call).",
        cfg.pick(6000, 100000),
    );
    rep.assumptions.push("the generator's functions have no global side effects: text, parameters, reads of globals/read counts, return value; no assignments, sequences or RANDOM".into());
    let nprog = cfg.get_u64("programs", cfg.pick(250, 4000));
    let mut gc = GenCfg::rich();
    gc.random = false;
    gc.pure_functions = true;
    gc.thread_boost = true;
    gc.divert_global = true;
    let opts = CmpOpts::default();
    let mut sampled = 0;
    for i in 0..nprog {
        if !cfg.mine(i) {
            continue;
        }
        let c = match generated(cfg.seed, "C16", i, &gc) {
            GenOutcome::Ok(c) => c,
            _ => {
                rep.inconclusive("generated-program-did-not-compile");
                continue;
            }
        };
        let meta = c.meta.clone().unwrap();
        let fnames: Vec<String> = meta.functions.iter().map(|f| f.0.clone()).collect();
        for h in 0..2u64 {
            let mut rng = Rng::derive(cfg.seed, "C16-hist", i * 10 + h);
            let hc = HistCfg {
                max_ops: cfg.pick(16, 32),
                flows: h == 1,
                jumps: false,
                cont_max: false,
                set_vars: false,
                stop_at_end: true,
                jump_targets: None,
            };
            let host = HostCfg {
                handler: false,
                fallbacks: true,
                fuel: Some(30_000),
                seed: Some(3),
                bind: c.info.externals.keys().map(|k| (k.clone(), true)).collect(),
                observe: c.info.globals.iter().enumerate().map(|(k, g)| (k, g.clone())).collect(),
            };
            let hist = match std::panic::catch_unwind(std::panic::AssertUnwindSafe(|| gen_history(&c, &host, &mut rng, &hc))) {
                Ok(Ok(h)) => h,
                _ => {
                    rep.inconclusive("control-run-failed");
                    continue;
                }
            };
            if hist.fuel || hist.ops.is_empty() {
                rep.inconclusive("fuel-or-empty");
                continue;
            }
            let control_final = strip_fn_counts(&hist.final_state, &fnames);
            let mut boundaries: Vec<usize> = vec![usize::MAX];
            boundaries.extend(0..hist.ops.len());
            for b in boundaries {
                if b != usize::MAX && !hist.recs[b].snap.errors.is_empty() {
                    break;
                }
                // one valid call and one refused call per boundary
                let f = rng.pick(&meta.functions).clone();
                let args: Vec<Val> = f
                    .1
                    .iter()
                    .map(|t| match t {
                        Ty::Str => Val::Str(format!("arg{}", rng.below(3))),
                        _ => Val::Int(rng.below(7) as i32 - 1),
                    })
                    .collect();
                let valid = Op::EvalFn(f.0.clone(), args);
                let refused = match rng.below(4) {
                    0 => Op::EvalFn("no_such_function".into(), vec![Val::Int(1)]),
                    1 => Op::EvalFn(" ".into(), vec![]),
                    2 => Op::EvalFn(String::new(), vec![]),
                    _ => Op::EvalFnVarArg(f.0.clone(), "gd".into()),
                };
                for (is_valid, call) in [(true, valid), (false, refused)] {
                    let sit = if b == usize::MAX {
                        "start".to_string()
                    } else {
                        hist.situ.get(b + 1).cloned().unwrap_or_else(|| "end".into())
                    };
                    rep.case(Some(fnv(&format!("{}|{:?}|{}|{:?}", c.name, &hist.ops[..if b == usize::MAX { 0 } else { b + 1 }], b, call))));
                    rep.count(&format!("{}@{sit}", if is_valid { "evaluate" } else { "refused" }));
                    let extra = if is_valid { vec![call.clone(), call.clone()] } else { vec![call.clone()] };
                    let witness = |what: &str, detail: serde_json::Value| {
                        json!({"program": c.name, "source": c.src, "history": hist.ops.iter().map(|o| o.show()).collect::<Vec<_>>(),
                            "inject_after_op_index": if b == usize::MAX { -1 } else { b as i64 }, "call": call.show(), "what": what, "detail": detail,
                            "situation": sit, "control_log": recs_json(&hist.recs)})
                    };
                    let r = std::panic::catch_unwind(std::panic::AssertUnwindSafe(|| inject(&c, &host, &hist.ops, &hist.recs, b, &extra, &opts, true)));
                    let inj = match r {
                        Err(e) => {
                            let msg = e.downcast_ref::<String>().cloned().or_else(|| e.downcast_ref::<&str>().map(|s| s.to_string())).unwrap_or_default();
                            rep.panic_caught(&format!("host-eval/{}", if is_valid { "valid" } else { "refused" }), witness("panic", json!(msg)));
                            continue;
                        }
                        Ok(Err(e)) => {
                            rep.harness_error(&e);
                            continue;
                        }
                        Ok(Ok(i)) => i,
                    };
                    let kind = if is_valid { "valid" } else { "refused" };
                    if is_valid {
                        match (&inj.injected[0].res, &inj.injected[1].res) {
                            (Ok(a), Ok(b2)) => {
                                if a != b2 {
                                    rep.violation("host-eval/valid/not-repeatable", witness("two consecutive evaluations of a side-effect-free function differ", json!([a, b2])));
                                    continue;
                                }
                                rep.count("results-compared-equal");
                            }
                            (a, _) => {
                                rep.violation("host-eval/valid/failed", witness("evaluate_function of an existing function failed", json!(format!("{a:?}"))));
                                continue;
                            }
                        }
                    } else if inj.injected[0].res.is_ok() {
                        rep.violation("host-eval/refused/returned-ok", witness("a call that must be refused returned Ok", json!(format!("{:?}", inj.injected[0].res))));
                        continue;
                    }
                    if inj.injected.iter().any(|r| !r.events.is_empty()) {
                        rep.violation(&format!("host-eval/{kind}/callback-fired"), witness("a callback fired during the evaluation", json!(inj.injected.iter().map(|r| r.events.clone()).collect::<Vec<_>>())));
                        continue;
                    }
                    if inj.before != inj.after {
                        rep.violation(&format!("host-eval/{kind}/immediate-snapshot"), witness("pending text/tags/choices changed", json!({"before": inj.before.to_json(), "after": inj.after.to_json()})));
                        continue;
                    }
                    let (sb, sa) = if is_valid {
                        (strip_fn_counts(&inj.state_before, &fnames), strip_fn_counts(&inj.state_after, &fnames))
                    } else {
                        (inj.state_before.clone(), inj.state_after.clone())
                    };
                    if let Some(d) = cmp_state(&sb, &sa, true) {
                        rep.violation(&format!("host-eval/{kind}/immediate-state"), witness("variables or other visit counts changed", d.to_json()));
                        continue;
                    }
                    if !is_valid && inj.save_before != inj.save_after {
                        rep.violation("host-eval/refused/immediate-save", witness("the saved state differs before/after the refused call", json!({"fp_before": inj.fp_before, "fp_after": inj.fp_after})));
                        continue;
                    }
                    if is_valid && inj.fp_before != inj.fp_after {
                        // guidance only (never a verdict): internal components that differ after the call
                        rep.count("fingerprint-differed-after-valid-evaluation");
                    }
                    if let Some(d) = &inj.later {
                        rep.violation(&format!("host-eval/{kind}/later-{}", d.field), witness("the story diverges later", json!({"divergence": d.to_json(), "treated_tail": recs_json(&inj.treated_tail)})));
                        continue;
                    }
                    if let Some(d) = cmp_state(&control_final, &strip_fn_counts(&inj.final_state, &fnames), true) {
                        rep.violation(&format!("host-eval/{kind}/final-state"), witness("final variables or visit counts differ", d.to_json()));
                        continue;
                    }
                    if sampled < 3 && b != usize::MAX && b > 5 && is_valid {
                        sampled += 1;
                        rep.sample(json!({"program": c.name, "source": c.src.as_ref().map(|s| truncate(s, 1200)), "history": hist.ops.iter().map(|o| o.show()).collect::<Vec<_>>(),
                            "inject_after_op_index": b, "call": call.show(), "result": format!("{:?}", inj.injected[0].res), "situation": sit}));
                    }
                }
            }
        }
    }
    rep.finish()
}

//! C16 — evaluating an Ink function from the host does not disturb the story.
use crate::history::{HistCfg, gen_history};
use crate::lockstep::{CmpOpts, cmp_state, inject};
use crate::player::{FullState, HostCfg, Op, Val, recs_json};
use crate::programs::{GenOutcome, generated};
use crate::r#gen::ast::Ty;
use crate::r#gen::build::GenCfg;
use crate::rng::{Rng, fnv};
use crate::util::{Cfg, Report, truncate};
use serde_json::json;

fn strip_fn_counts(s: &FullState, fnames: &[String]) -> FullState {
    let mut s = s.clone();
    s.visits.retain(|(p, _)| !fnames.iter().any(|f| p == f || p.starts_with(&format!("{f}."))));
    s
}

pub fn run(cfg: &Cfg) -> i32 {
    let mut rep = Report::new(
        cfg,
        "exploration",
        "case = (program with side-effect-free functions, host-call history, position, call): evaluate_function is injected twice after the position. Monitored: both calls return the same value and text (purity), pending text/tags/choices are unchanged, all globals and all visit counts except the function's own are unchanged, the canonical save is unchanged except for the function's counts, every later record and the final state equal the uninjected control. Refused calls (unknown/blank name, divert-target argument read through get_variable) must return Err and change nothing at all. Non-trivial = all; distinct by (program, history prefix, call).",
        cfg.pick(6000, 800000),
    );
    rep.assumptions.push("the generator's functions have no global side effects: text, parameters, reads of globals/read counts, return value; no assignments, sequences or RANDOM".into());
    let nprog = cfg.get_u64("programs", cfg.pick(250, 30000));
    let mut gc = GenCfg::rich();
    gc.random = false;
    gc.pure_functions = true;
    gc.thread_boost = true;
    gc.divert_global = true;
    gc.call_mid_expression_boost = true;
    gc.thread_fallbacks = true;
    let opts = CmpOpts::default();
    let mut sampled = 0;
    for i in 0..nprog {
        if !cfg.mine(i) {
            continue;
        }
        let c = match generated(cfg.seed, "C16", i, &gc) {
            GenOutcome::Ok(c) => c,
            _ => {
                rep.inconclusive("generated-program-did-not-compile");
                continue;
            }
        };
        let meta = c.meta.clone().unwrap();
        let fnames: Vec<String> = meta.functions.iter().map(|f| f.0.clone()).collect();
        for h in 0..2u64 {
            let mut rng = Rng::derive(cfg.seed, "C16-hist", i * 10 + h);
            let hc = HistCfg {
                max_ops: cfg.pick(16, 32),
                flows: h == 1,
                jumps: false,
                cont_max: false,
                set_vars: false,
                stop_at_end: true, bad_calls: false,
                jump_targets: None,
            };
            let host = HostCfg {
                handler: false,
                fallbacks: true,
                fuel: Some(30_000),
                seed: Some(3),
                bind: c.info.externals.keys().map(|k| (k.clone(), true)).collect(),
                observe: c.info.globals.iter().enumerate().map(|(k, g)| (k, g.clone())).collect(),
            };
            let hist = match std::panic::catch_unwind(std::panic::AssertUnwindSafe(|| gen_history(&c, &host, &mut rng, &hc))) {
                Ok(Ok(h)) => h,
                _ => {
                    rep.inconclusive("control-run-failed");
                    continue;
                }
            };
            if hist.fuel || hist.ops.is_empty() {
                rep.inconclusive("fuel-or-empty");
                continue;
            }
            let control_final = strip_fn_counts(&hist.final_state, &fnames);
            let mut boundaries: Vec<usize> = vec![usize::MAX];
            boundaries.extend(0..hist.ops.len());
            for b in boundaries {
                if b != usize::MAX && !hist.recs[b].snap.errors.is_empty() {
                    break;
                }
                // one valid call and one refused call per boundary
                let f = rng.pick(&meta.functions).clone();
                let args: Vec<Val> = f
                    .1
                    .iter()
                    .map(|t| match t {
                        Ty::Str => Val::Str(format!("arg{}", rng.below(3))),
                        // a bool from the host must arrive as a bool (it prints as true / false)
                        _ if rng.chance(1, 5) => Val::Bool(rng.chance(1, 2)),
                        _ => Val::Int(rng.below(7) as i32 - 1),
                    })
                    .collect();
                let valid = Op::EvalFn(f.0.clone(), args);
                let refused = match rng.below(4) {
                    0 => Op::EvalFn("no_such_function".into(), vec![Val::Int(1)]),
                    1 => Op::EvalFn(" ".into(), vec![]),
                    2 => Op::EvalFn(String::new(), vec![]),
                    _ => Op::EvalFnVarArg(f.0.clone(), "gd".into()),
                };
                for (is_valid, call) in [(true, valid), (false, refused)] {
                    let sit = if b == usize::MAX {
                        "start".to_string()
                    } else {
                        hist.situ.get(b + 1).cloned().unwrap_or_else(|| "end".into())
                    };
                    rep.case(Some(fnv(&format!("{}|{:?}|{}|{:?}", c.name, &hist.ops[..if b == usize::MAX { 0 } else { b + 1 }], b, call))));
                    rep.count(&format!("{}@{sit}", if is_valid { "evaluate" } else { "refused" }));
                    let extra = if is_valid { vec![call.clone(), call.clone()] } else { vec![call.clone()] };
                    let witness = |what: &str, detail: serde_json::Value| {
                        json!({"program": c.name, "source": c.src, "history": hist.ops.iter().map(|o| o.show()).collect::<Vec<_>>(),
                            "inject_after_op_index": if b == usize::MAX { -1 } else { b as i64 }, "call": call.show(), "what": what, "detail": detail,
                            "situation": sit, "control_log": recs_json(&hist.recs)})
                    };
                    let r = std::panic::catch_unwind(std::panic::AssertUnwindSafe(|| inject(&c, &host, &hist.ops, &hist.recs, b, &extra, &opts, true)));
                    let inj = match r {
                        Err(e) => {
                            let msg = e.downcast_ref::<String>().cloned().or_else(|| e.downcast_ref::<&str>().map(|s| s.to_string())).unwrap_or_default();
                            rep.panic_caught(&format!("host-eval/{}", if is_valid { "valid" } else { "refused" }), witness("panic", json!(msg)));
                            continue;
                        }
                        Ok(Err(e)) => {
                            rep.harness_error(&e);
                            continue;
                        }
                        Ok(Ok(i)) => i,
                    };
                    let kind = if is_valid { "valid" } else { "refused" };
                    if is_valid {
                        match (&inj.injected[0].res, &inj.injected[1].res) {
                            (Ok(a), Ok(b2)) => {
                                if a != b2 {
                                    rep.violation("host-eval/valid/not-repeatable", witness("two consecutive evaluations of a side-effect-free function differ", json!([a, b2])));
                                    continue;
                                }
                                rep.count("results-compared-equal");
                                // the value and text themselves: judged by the reference interpreter when the function reads
                                // nothing but its arguments and globals (their values are taken from the story)
                                if let (Some(ast), Op::EvalFn(fname, fargs)) = (&c.ast, &call) {
                                    match expected_result(ast, fname, fargs, &inj.state_before) {
                                        Some(exp) => {
                                            rep.count("value-and-text-judged");
                                            let got = a.trim_end_matches(['\n', ' ']).replace("\\n\"", "\"");
                                            if normalise_result(&got) != normalise_result(&exp) {
                                                rep.violation("host-eval/valid/wrong-result", witness("the value or text differs from what the function's source prescribes", json!({"expected": exp, "returned": a})));
                                                continue;
                                            }
                                        }
                                        None => rep.count("value-not-judged(function reads counts)"),
                                    }
                                }
                            }
                            (a, _) => {
                                rep.violation("host-eval/valid/failed", witness("evaluate_function of an existing function failed", json!(format!("{a:?}"))));
                                continue;
                            }
                        }
                    } else if inj.injected[0].res.is_ok() {
                        rep.violation("host-eval/refused/returned-ok", witness("a call that must be refused returned Ok", json!(format!("{:?}", inj.injected[0].res))));
                        continue;
                    }
                    if inj.injected.iter().any(|r| !r.events.is_empty()) {
                        rep.violation(&format!("host-eval/{kind}/callback-fired"), witness("a callback fired during the evaluation", json!(inj.injected.iter().map(|r| r.events.clone()).collect::<Vec<_>>())));
                        continue;
                    }
                    if inj.before != inj.after {
                        rep.violation(&format!("host-eval/{kind}/immediate-snapshot"), witness("pending text/tags/choices changed", json!({"before": inj.before.to_json(), "after": inj.after.to_json()})));
                        continue;
                    }
                    let (sb, sa) = if is_valid {
                        (strip_fn_counts(&inj.state_before, &fnames), strip_fn_counts(&inj.state_after, &fnames))
                    } else {
                        (inj.state_before.clone(), inj.state_after.clone())
                    };
                    if let Some(d) = cmp_state(&sb, &sa, true) {
                        rep.violation(&format!("host-eval/{kind}/immediate-state"), witness("variables or other visit counts changed", d.to_json()));
                        continue;
                    }
                    if !is_valid && inj.save_before != inj.save_after {
                        rep.violation("host-eval/refused/immediate-save", witness("the saved state differs before/after the refused call", json!({"fp_before": inj.fp_before, "fp_after": inj.fp_after})));
                        continue;
                    }
                    if is_valid && inj.fp_before != inj.fp_after {
                        // guidance only (never a verdict): internal components that differ after the call
                        rep.count("fingerprint-differed-after-valid-evaluation");
                    }
                    if let Some(d) = &inj.later {
                        rep.violation(&format!("host-eval/{kind}/later-{}", d.field), witness("the story diverges later", json!({"divergence": d.to_json(), "treated_tail": recs_json(&inj.treated_tail)})));
                        continue;
                    }
                    if let Some(d) = cmp_state(&control_final, &strip_fn_counts(&inj.final_state, &fnames), true) {
                        rep.violation(&format!("host-eval/{kind}/final-state"), witness("final variables or visit counts differ", d.to_json()));
                        continue;
                    }
                    if sampled < 3 && b != usize::MAX && b > 5 && is_valid {
                        sampled += 1;
                        rep.sample(json!({"program": c.name, "source": c.src.as_ref().map(|s| truncate(s, 1200)), "history": hist.ops.iter().map(|o| o.show()).collect::<Vec<_>>(),
                            "inject_after_op_index": b, "call": call.show(), "result": format!("{:?}", inj.injected[0].res), "situation": sit}));
                    }
                }
            }
        }
    }
    rep.finish()
}


fn reads_counts_expr(e: &crate::r#gen::ast::Expr) -> bool {
    use crate::r#gen::ast::Expr;
    match e {
        Expr::ReadCount(_) | Expr::TurnsSince(_) | Expr::ChoiceCount | Expr::Turns | Expr::Call(..) | Expr::ListLit(_) | Expr::Target(_) => true,
        Expr::Bin(a, _, b) => reads_counts_expr(a) || reads_counts_expr(b),
        Expr::Not(a) | Expr::Neg(a) => reads_counts_expr(a),
        _ => false,
    }
}

fn reads_counts_inl(xs: &[crate::r#gen::ast::Inline]) -> bool {
    use crate::r#gen::ast::Inline;
    xs.iter().any(|x| match x {
        Inline::Expr(e) => reads_counts_expr(e),
        Inline::Cond(c, a, b) => reads_counts_expr(c) || reads_counts_inl(a) || b.as_ref().is_some_and(|b| reads_counts_inl(b)),
        Inline::Seq(..) => true,
        _ => false,
    })
}

fn reads_counts(b: &[crate::r#gen::ast::Stmt]) -> bool {
    use crate::r#gen::ast::Stmt;
    b.iter().any(|s| match s {
        Stmt::Line(xs, _) => reads_counts_inl(xs),
        Stmt::Return(Some(e)) | Stmt::Eval(e) => reads_counts_expr(e),
        Stmt::Return(None) => false,
        Stmt::If(br, els) => br.iter().any(|(c, b)| reads_counts_expr(c) || reads_counts(b)) || els.as_ref().is_some_and(|b| reads_counts(b)),
        _ => true,
    })
}

/// "value text=..." as the player records it, computed from the source by the reference interpreter
fn expected_result(ast: &crate::r#gen::ast::Program, fname: &str, args: &[Val], before: &crate::player::FullState) -> Option<String> {
    use crate::refint::eval::V;
    let k = ast.knots.iter().find(|k| k.name == fname)?;
    if reads_counts(&k.body) {
        return None;
    }
    let ir = std::rc::Rc::new(crate::refint::ir::flatten(ast));
    let mut ri = crate::refint::interp::Refint::new_lenient(ast, ir, 50_000);
    for (name, shown) in before.vars.iter() {
        let v = if let Some(x) = shown.strip_prefix("int:") {
            V::Int(x.parse().ok()?)
        } else if let Some(x) = shown.strip_prefix("bool:") {
            V::Bool(x == "true")
        } else if let Some(x) = shown.strip_prefix("str:") {
            V::Str(serde_json::from_str::<String>(x).ok()?)
        } else {
            continue;
        };
        ri.globals.insert(name.clone(), v);
    }
    let vals: Vec<V> = args
        .iter()
        .map(|a| match a {
            Val::Int(i) => V::Int(*i),
            Val::Bool(b) => V::Bool(*b),
            Val::Str(s) => V::Str(s.clone()),
            Val::Float(f) => V::Float(*f),
        })
        .collect();
    let (v, text) = ri.host_call(fname, vals).ok()?;
    let shown = match v {
        None => "none".to_string(),
        Some(V::Int(i)) => format!("int:{i}"),
        Some(V::Bool(b)) => format!("bool:{b}"),
        Some(V::Str(s)) => format!("str:{s:?}"),
        Some(V::Float(f)) => format!("float:{f:?}"),
        Some(V::List(_)) => return None,
    };
    Some(format!("{shown} text={text:?}"))
}

/// value part as is; text part compared without trailing line breaks
fn normalise_result(s: &str) -> String {
    match s.split_once(" text=") {
        Some((v, t)) => {
            let t: String = serde_json::from_str::<String>(t).unwrap_or_else(|_| t.to_string());
            format!("{v} text={}", t.trim_end())
        }
        None => s.to_string(),
    }
}

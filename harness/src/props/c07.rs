//! C07 — expressions over numbers, strings and lists evaluate as Ink specifies.
use crate::player::{HostCfg, Op, Player, show_value};
use crate::programs::from_json;
use crate::refint::eval::{Fault, ListDefs, ListV, V, binary, show, unary};
use crate::rng::{Rng, fnv};
use crate::util::{Cfg, Report, truncate};
use serde_json::json;
use std::collections::{BTreeMap, BTreeSet};

const PRELUDE: &str = "LIST la = a1, a2, a3\nLIST lb = b1 = 2, b2 = 3, b3 = 7\nLIST lc = (c1), c2 = 5\nVAR vi = 3\nVAR vn = -2\nVAR vz = 0\nVAR vf = 1.5\nVAR vb = true\nVAR vs = \"ab\"\nVAR va = ()\nVAR vbb = ()\nVAR vm = ()\nVAR ve = ()\nVAR veo = ()\nVAR vg = (a2, b3)\nVAR out = 0\n";

fn defs() -> ListDefs {
    let mut d = ListDefs::default();
    d.lists.insert("la".into(), [("a1", 1), ("a2", 2), ("a3", 3)].iter().map(|(k, v)| (k.to_string(), *v)).collect());
    d.lists.insert("lb".into(), [("b1", 2), ("b2", 3), ("b3", 7)].iter().map(|(k, v)| (k.to_string(), *v)).collect());
    d.lists.insert("lc".into(), [("c1", 1), ("c2", 5)].iter().map(|(k, v)| (k.to_string(), *v)).collect());
    d
}

fn item(d: &ListDefs, name: &str) -> (String, String, i32) {
    for (l, items) in d.lists.iter() {
        if let Some(v) = items.get(name) {
            return (l.clone(), name.to_string(), *v);
        }
    }
    panic!("unknown item {name}")
}

fn list_of(d: &ListDefs, names: &[&str]) -> V {
    V::List(ListV { items: names.iter().map(|n| item(d, n)).collect(), empty_origins: BTreeSet::new() })
}

#[derive(Clone, Debug)]
struct Node {
    src: String,
    val: Result<V, Fault>,
    /// more than one acceptable value (ties among list items of equal value)
    alternatives: Vec<V>,
    depth: usize,
}

fn atoms(d: &ListDefs) -> Vec<Node> {
    let n = |src: &str, v: V| Node { src: src.to_string(), val: Ok(v), alternatives: vec![], depth: 0 };
    let mut veo = ListV::empty();
    veo.empty_origins.insert("la".into());
    vec![
        n("0", V::Int(0)), n("1", V::Int(1)), n("2", V::Int(2)), n("3", V::Int(3)), n("7", V::Int(7)), n("(-1)", V::Int(-1)), n("(-5)", V::Int(-5)),
        n("0.5", V::Float(0.5)), n("1.5", V::Float(1.5)), n("2.0", V::Float(2.0)), n("(-0.25)", V::Float(-0.25)), n("4.0", V::Float(4.0)),
        n("true", V::Bool(true)), n("false", V::Bool(false)),
        n("\"a\"", V::Str("a".into())), n("\"ab\"", V::Str("ab".into())), n("\"b\"", V::Str("b".into())), n("\"\"", V::Str(String::new())), n("\"3\"", V::Str("3".into())),
        n("vi", V::Int(3)), n("vn", V::Int(-2)), n("vz", V::Int(0)), n("vf", V::Float(1.5)), n("vb", V::Bool(true)), n("vs", V::Str("ab".into())),
        n("(a1)", list_of(d, &["a1"])), n("(a2, a3)", list_of(d, &["a2", "a3"])), n("(a1, b2)", list_of(d, &["a1", "b2"])), n("(b1)", list_of(d, &["b1"])), n("(b3, c1)", list_of(d, &["b3", "c1"])),
        n("(a2, b1)", list_of(d, &["a2", "b1"])), n("(c2)", list_of(d, &["c2"])), n("()", V::List(ListV::empty())),
        n("vg", list_of(d, &["a2", "b3"])),
        n("va", list_of(d, &["a1", "a3"])), n("vbb", list_of(d, &["b1", "b2", "b3"])), n("vm", list_of(d, &["a2", "b1"])), n("ve", V::List(ListV::empty())), n("veo", V::List(veo)),
    ]
}

const BINOPS: &[&str] = &["+", "-", "*", "/", "%", "==", "!=", "<", "<=", ">", ">=", "&&", "||", "?", "!?", "^"];
const UNOPS: &[&str] = &["-", "not", "FLOOR", "CEILING", "INT", "FLOAT", "LIST_COUNT", "LIST_VALUE", "LIST_ALL", "LIST_INVERT", "LIST_MIN", "LIST_MAX"];
const CALL2: &[&str] = &["MIN", "MAX", "POW"];

fn exact_float(v: &V) -> bool {
    // only values whose decimal form is exact and short are compared (dyadic rationals of modest size)
    match v {
        V::Float(f) => f.is_finite() && (f * 64.0).fract() == 0.0 && f.abs() < 1.0e6,
        _ => true,
    }
}

fn mk_bin(d: &ListDefs, a: &Node, op: &str, b: &Node) -> Option<Node> {
    let (Ok(x), Ok(y)) = (&a.val, &b.val) else { return None };
    if !a.alternatives.is_empty() || !b.alternatives.is_empty() {
        return None;
    }
    let val = if CALL2.contains(&op) { binary(d, op, x, y) } else { binary(d, op, x, y) };
    let src = if CALL2.contains(&op) { format!("{op}({}, {})", a.src, b.src) } else { format!("({} {op} {})", a.src, b.src) };
    match &val {
        Err(Fault::TypeError(_)) | Err(Fault::Unspecified(_)) => return None,
        Ok(v) if !exact_float(v) => return None,
        _ => {}
    }
    // list + int when two items of one list share the target value is engine-defined: our lists have unique values
    Some(Node { src, val, alternatives: vec![], depth: a.depth.max(b.depth) + 1 })
}

fn mk_un(d: &ListDefs, op: &str, a: &Node) -> Option<Node> {
    let Ok(x) = &a.val else { return None };
    if !a.alternatives.is_empty() {
        return None;
    }
    if op == "LIST_MIN" || op == "LIST_MAX" {
        let V::List(l) = x else { return None };
        let c = if op == "LIST_MIN" { l.min_candidates() } else { l.max_candidates() };
        let mk = |it: &(String, String, i32)| V::List(ListV { items: [it.clone()].into_iter().collect(), empty_origins: BTreeSet::new() });
        let alts: Vec<V> = c.iter().map(mk).collect();
        // the minimum / maximum of an empty list is a plain empty list (no origin)
        let val = if c.is_empty() { V::List(ListV::empty()) } else { alts[0].clone() };
        return Some(Node { src: format!("{op}({})", a.src), val: Ok(val), alternatives: if alts.len() > 1 { alts } else { vec![] }, depth: a.depth + 1 });
    }
    let val = unary(d, op, x);
    match &val {
        Err(Fault::TypeError(_)) | Err(Fault::Unspecified(_)) => return None,
        Ok(v) if !exact_float(v) => return None,
        _ => {}
    }
    let src = match op {
        "-" => format!("(-{})", a.src),
        "not" => format!("(not {})", a.src),
        _ => format!("{op}({})", a.src),
    };
    Some(Node { src, val, alternatives: vec![], depth: a.depth + 1 })
}

fn special(d: &ListDefs, rng: &mut Rng) -> Option<Node> {
    // list-from-int and LIST_RANGE
    match rng.below(2) {
        0 => {
            let (l, items) = d.lists.iter().nth(rng.below(d.lists.len()))?;
            let n = rng.below(9) as i32;
            let mut lv = ListV::empty();
            match items.iter().find(|(_, v)| **v == n) {
                Some((k, v)) => {
                    lv.items.insert((l.clone(), k.clone(), *v));
                }
                None => {} // no item with that value: a plain empty list, without origin
            }
            Some(Node { src: format!("{l}({n})"), val: Ok(V::List(lv)), alternatives: vec![], depth: 1 })
        }
        _ => {
            let a = atoms(d);
            let lists: Vec<&Node> = a.iter().filter(|n| matches!(&n.val, Ok(V::List(l)) if !l.items.is_empty())).collect();
            let src = rng.pick(&lists);
            let (lo, hi) = (rng.below(4) as i32, 2 + rng.below(6) as i32);
            let Ok(V::List(l)) = &src.val else { return None };
            let items: BTreeSet<_> = l.items.iter().filter(|i| i.2 >= lo && i.2 <= hi).cloned().collect();
            Some(Node { src: format!("LIST_RANGE({}, {lo}, {hi})", src.src), val: Ok(V::List(ListV { items, empty_origins: l.origins() })), alternatives: vec![], depth: 1 })
        }
    }
}

/// All depth-1 nodes over the atoms (finite, enumerated completely), in a stable order.
fn all_depth1(d: &ListDefs) -> Vec<Node> {
    let a = atoms(d);
    let mut out = Vec::new();
    for x in a.iter() {
        for op in UNOPS {
            if let Some(n) = mk_un(d, op, x) {
                out.push(n);
            }
        }
        for y in a.iter() {
            for op in BINOPS.iter().chain(CALL2.iter()) {
                if let Some(n) = mk_bin(d, x, op, y) {
                    out.push(n);
                }
            }
        }
    }
    out
}

/// A complete depth-2 family: every list function applied to every union / difference / intersection of two list
/// atoms (what a list still "belongs to" after items were added or removed shows in LIST_ALL / LIST_INVERT).
fn all_list_fn_of_list_op(d: &ListDefs) -> Vec<Node> {
    let a = atoms(d);
    let lists: Vec<&Node> = a.iter().filter(|n| matches!(&n.val, Ok(V::List(_)))).collect();
    let mut out = Vec::new();
    for x in lists.iter() {
        for y in lists.iter() {
            for op in ["+", "-", "^"] {
                let Some(inner) = mk_bin(d, x, op, y) else { continue };
                for f in ["LIST_ALL", "LIST_INVERT", "LIST_COUNT", "LIST_MIN", "LIST_MAX", "LIST_VALUE"] {
                    if let Some(n) = mk_un(d, f, &inner) {
                        out.push(n);
                    }
                }
            }
        }
    }
    out
}

fn random_node(d: &ListDefs, rng: &mut Rng, depth: usize, pool1: &[Node]) -> Option<Node> {
    if depth <= 1 {
        return Some(if rng.chance(1, 8) { rng.pick(&atoms(d)).clone() } else { rng.pick(pool1).clone() });
    }
    if rng.chance(1, 10) {
        return special(d, rng);
    }
    if rng.chance(1, 4) {
        let x = random_node(d, rng, depth - 1, pool1)?;
        let uop = *rng.pick(UNOPS);
        return mk_un(d, uop, &x);
    }
    let x = random_node(d, rng, depth - 1, pool1)?;
    let dy = depth - 1 - rng.below(2).min(depth - 1);
    let y = random_node(d, rng, dy, pool1)?;
    let op = *rng.pick(&BINOPS.iter().chain(CALL2.iter()).cloned().collect::<Vec<_>>());
    mk_bin(d, &x, op, &y)
}

fn show_as_variable(v: &V) -> String {
    match v {
        V::Int(i) => format!("int:{i}"),
        V::Float(f) => format!("float:{f:?}"),
        V::Bool(b) => format!("bool:{b}"),
        V::Str(s) => format!("str:{s:?}"),
        V::List(l) => {
            let mut items: Vec<(i32, String)> = l.items.iter().map(|i| (i.2, format!("{}.{}", i.0, i.1))).collect();
            items.sort();
            format!("list:[{}]", items.iter().map(|(v, n)| format!("{n}={v}")).collect::<Vec<_>>().join(","))
        }
    }
}

fn collapse(s: &str) -> String {
    s.split_whitespace().collect::<Vec<_>>().join(" ")
}

pub fn run(cfg: &Cfg) -> i32 {
    let mut rep = Report::new(
        cfg,
        "exploration",
        "case = one expression, compiled into its own knot ('rN {expr} end' and '~ out = expr'), reached by a host jump, continued, and compared with an independent evaluator in both its printed form and its stored value (type and value via get_variable). Expressions: ALL operator applications of depth 1 over 38 atoms (int, exactly representable float, bool, string literals and variables; list literals and variables over three LISTs with equal values across lists, mixed-origin lists, an empty list without origin and an emptied list with origin) - every unary operator/function (-, not, FLOOR, CEILING, INT, FLOAT, LIST_COUNT/VALUE/ALL/INVERT/MIN/MAX) and every binary operator/function (+ - * / % == != < <= > >= && || ? !? ^ MIN MAX POW) that the rules give a value for - plus seeded random trees of depth 2-3, list-from-int and LIST_RANGE. Where Ink leaves the choice among items of equal value open (LIST_MIN/MAX ties) any of them is accepted. Expected faults (division by zero) must surface as errors. Non-trivial = every expression with an operator; distinct by expression text.",
        cfg.pick(8000, 1_000_000),
    );
    rep.assumptions.push("the evaluator follows the reference engine's published operator tables: operands are coerced to the higher of (int, float, list, string) with bool counting as int, comparisons/logic yield bool, int '/' and '%' truncate, POW of ints yields a float, list comparisons use min/max of item values with the documented empty-list cases".into());
    let d = defs();
    let pool1 = all_depth1(&d);
    rep.extra.insert("depth1_expressions_total".into(), json!(pool1.len()));
    // the cases of this run: quick = a seeded half of depth 1 + random deeper ones; thorough = all of depth 1 + many deeper
    let mut cases: Vec<Node> = Vec::new();
    let mut rng = Rng::derive(cfg.seed, "C07", 0);
    if cfg.quick() {
        for n in pool1.iter() {
            if rng.chance(1, 2) {
                cases.push(n.clone());
            }
        }
    } else {
        cases.extend(pool1.iter().cloned());
        rep.exhaustive = Some(true);
    }
    let family2 = all_list_fn_of_list_op(&d);
    rep.extra.insert("list_function_of_list_operation_expressions_total".into(), json!(family2.len()));
    let base_cases = if cfg.quick() {
        for n in family2.iter() {
            if rng.chance(1, 2) {
                cases.push(n.clone());
            }
        }
        cases.len() as u64
    } else {
        cases.extend(family2.iter().cloned());
        cases.len() as u64
    };
    let nrandom = cfg.get_u64("random", cfg.pick(8000, 3_000_000));
    let mut tries = 0;
    while (cases.len() as u64) < base_cases + nrandom && tries < nrandom * 20 {
        tries += 1;
        let depth = 2 + rng.below(if cfg.quick() { 3 } else { 4 });
        if let Some(n) = random_node(&d, &mut rng, depth, &pool1) {
            if n.src.len() < 220 {
                cases.push(n);
            }
        }
    }
    if !cfg.quick() {
        rep.exhaustive = Some(false); // depth 1 is complete, the deeper trees are sampled
        rep.extra.insert("depth1_enumerated_completely".into(), json!(true));
    }
    let chunk = 40;
    let mut matrix: BTreeMap<String, u64> = BTreeMap::new();
    let mut sampled = 0;
    for (ci, group) in cases.chunks(chunk).enumerate() {
        if !cfg.mine(ci as u64) {
            continue;
        }
        // compile the group; if the compiler rejects it, try each expression alone
        let build = |nodes: &[&Node]| -> String {
            let mut s = String::from(PRELUDE);
            // list variables get their values by assignment (a list literal in a VAR line is a separate, recorded case)
            s.push_str("~ va = (a1, a3)\n~ vbb = (b1, b2, b3)\n~ vm = (a2, b1)\n~ veo = (a2)\n~ veo = veo - veo\n-> DONE\n");
            for (k, n) in nodes.iter().enumerate() {
                s.push_str(&format!("=== e{k} ===\nr{k} {{{}}} end\n~ out = {}\n-> END\n", n.src, n.src));
            }
            s
        };
        let all: Vec<&Node> = group.iter().collect();
        let compile = |src: &str| std::panic::catch_unwind(|| bladeink_compiler::Compiler::new().compile(src));
        let mut batches: Vec<Vec<&Node>> = Vec::new();
        match compile(&build(&all)) {
            Ok(Ok(_)) => batches.push(all),
            _ => {
                let _ = crate::util::take_last_panic();
                for n in group.iter() {
                    batches.push(vec![n]);
                }
            }
        }
        for batch in batches {
            let src = build(&batch);
            let json_text = match compile(&src) {
                Ok(Ok(j)) => j,
                Ok(Err(e)) => {
                    rep.inconclusive(&format!("compiler-rejected-expression: {}", truncate(&e.to_string(), 50)));
                    continue;
                }
                Err(_) => {
                    let _ = crate::util::take_last_panic();
                    rep.inconclusive("compiler-panicked-on-expression (C06's business)");
                    continue;
                }
            };
            let Some(c) = from_json("expr", json_text, Some(src.clone())) else { continue };
            let host = HostCfg { handler: true, fallbacks: true, fuel: Some(5_000), seed: Some(1), bind: vec![], observe: vec![] };
            let Ok(mut p) = Player::new(c.json.clone(), c.info.clone(), host) else { continue };
            // run the root (empties veo so that it is an empty list that remembers its origin)
            let r0 = std::panic::catch_unwind(std::panic::AssertUnwindSafe(|| {
                while p.story.can_continue() {
                    p.apply(&Op::Cont);
                }
            }));
            if r0.is_err() {
                rep.panic_caught("expr/prelude", json!({"source": src}));
                continue;
            }
            for (k, n) in batch.iter().enumerate() {
                rep.case(Some(fnv(&n.src)));
                let opname = n.src.split(|ch: char| ch == '(' || ch == ' ').find(|t| !t.is_empty()).unwrap_or("").to_string();
                let _ = opname;
                let r = std::panic::catch_unwind(std::panic::AssertUnwindSafe(|| {
                    let mut recs = vec![p.apply(&Op::ChoosePath(format!("e{k}"), true))];
                    for _ in 0..3 {
                        if !p.story.can_continue() {
                            break;
                        }
                        recs.push(p.apply(&Op::Cont));
                    }
                    (recs, p.story.get_variable("out").map(|v| show_value(&v)))
                }));
                let wit = |what: &str, detail: serde_json::Value| json!({"expression": n.src, "what": what, "detail": detail, "knot_source": format!("r{k} {{{}}} end / ~ out = {}", n.src, n.src)});
                let (recs, out_var) = match r {
                    Err(_) => {
                        rep.panic_caught("expr", wit("panic while evaluating", json!(null)));
                        // the story object may be unusable now
                        break;
                    }
                    Ok(x) => x,
                };
                let text: String = recs.iter().filter_map(|r| r.res.clone().ok()).collect();
                let errors: Vec<String> = recs.iter().flat_map(|r| r.events.iter().filter(|e| e.starts_with("handler E")).cloned()).collect();
                let kind = match &n.val {
                    Ok(V::Int(_)) => "int",
                    Ok(V::Float(_)) => "float",
                    Ok(V::Bool(_)) => "bool",
                    Ok(V::Str(_)) => "string",
                    Ok(V::List(_)) => "list",
                    Err(_) => "fault",
                };
                *matrix.entry(format!("result:{kind}")).or_insert(0) += 1;
                match &n.val {
                    Err(Fault::DivisionByZero) => {
                        if !errors.iter().any(|e| e.contains("zero")) {
                            rep.violation("expr/division-by-zero-not-reported", wit("expected a division-by-zero error", json!({"text": text, "errors": errors})));
                        }
                        // the story is in error state: reset and re-run the prelude for the next expressions
                        p.apply(&Op::Reset);
                        while p.story.can_continue() {
                            p.apply(&Op::Cont);
                        }
                    }
                    Err(_) => {}
                    Ok(v) => {
                        if !errors.is_empty() {
                            let msg = errors[0].split("): ").last().unwrap_or("").to_string();
                            rep.violation(&format!("expr/unexpected-error:{}", truncate(&msg.chars().map(|c| if c.is_ascii_digit() { '#' } else { c }).collect::<String>(), 50)), wit("the engine raised an error for a well-typed expression", json!({"expected": show(v), "errors": errors})));
                            p.apply(&Op::Reset);
                            while p.story.can_continue() {
                                p.apply(&Op::Cont);
                            }
                            continue;
                        }
                        let accept: Vec<&V> = if n.alternatives.is_empty() { vec![v] } else { n.alternatives.iter().collect() };
                        let got_line = collapse(text.lines().find(|l| l.starts_with(&format!("r{k} "))).unwrap_or(""));
                        let printed_ok = accept.iter().any(|a| got_line == collapse(&format!("r{k} {} end", show(a))));
                        let stored_ok = accept.iter().any(|a| out_var.as_deref() == Some(show_as_variable(a).as_str()));
                        if !printed_ok || !stored_ok {
                            let expected_kind = kind;
                            let what = if !printed_ok { "printed" } else { "stored" };
                            // signature: operator + operand kinds, so that one root cause is one finding
                            let sig = format!("expr/{what}-value-differs/{}", signature_of(&n.src, expected_kind));
                            rep.violation(&sig, wit("value differs from the independent evaluator", json!({"expected_printed": format!("r{k} {} end", show(v)), "got_line": got_line, "expected_stored": show_as_variable(v), "got_stored": out_var, "alternatives": n.alternatives.len()})));
                        } else if sampled < 4 && n.depth >= 2 {
                            sampled += 1;
                            rep.sample(json!({"expression": n.src, "expected_printed": show(v), "expected_stored": show_as_variable(v), "engine_line": got_line, "engine_stored": out_var}));
                        }
                    }
                }
            }
        }
    }
    for (k, v) in matrix {
        rep.count_n(&k, v);
    }
    rep.finish()
}

/// outermost operator of a fully parenthesised expression + result kind
fn signature_of(src: &str, kind: &str) -> String {
    let s = src.trim();
    let op = if let Some(p) = s.find('(')
        && p > 0
        && !s.starts_with('(')
    {
        s[..p].to_string()
    } else {
        // (a op b): find the operator at parenthesis depth 1
        let mut depth = 0;
        let mut op = String::new();
        let chars: Vec<char> = s.chars().collect();
        let mut i = 0;
        while i < chars.len() {
            match chars[i] {
                '(' => depth += 1,
                ')' => depth -= 1,
                ' ' if depth == 1 => {
                    let rest: String = chars[i + 1..].iter().collect();
                    if let Some(tok) = rest.split(' ').next()
                        && BINOPS.contains(&tok)
                    {
                        op = tok.to_string();
                        break;
                    }
                }
                _ => {}
            }
            i += 1;
        }
        if op.is_empty() {
            if s.starts_with("(-") { "neg".into() } else if s.starts_with("(not") { "not".into() } else { "atom".into() }
        } else {
            op
        }
    };
    format!("{op}->{kind}")
}

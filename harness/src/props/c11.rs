//! C11 — variable observers see each committed change once, with the final value.
use crate::player::{HostCfg, Op, Player, Rec, Val, recs_json, show_value};
use crate::programs::{Compiled, GenOutcome, generated};
use crate::r#gen::build::GenCfg;
use crate::rng::{Rng, fnv};
use crate::util::{Cfg, Report, truncate};
use bladeink::value_type::ValueType;
use serde_json::{Value, json};
use std::collections::{BTreeMap, BTreeSet};

const N_OBS: usize = 4;

fn poll(p: &Player) -> BTreeMap<String, String> {
    p.info.globals.iter().map(|g| (g.clone(), p.story.get_variable(g).map(|v| show_value(&v)).unwrap_or_else(|| "none".into()))).collect()
}

/// parse "obs#3 gi0=int:5"
fn parse_obs(e: &str) -> Option<(usize, String, String)> {
    let rest = e.strip_prefix("obs#")?;
    let (id, rest) = rest.split_once(' ')?;
    let (var, val) = rest.split_once('=')?;
    Some((id.parse().ok()?, var.to_string(), val.to_string()))
}

struct Outcome {
    diff: Option<(String, Value)>,
    continues: u64,
    changed_vars: u64,
    notifications: u64,
    unchanged_notified: u64,
    sliced: u64,
    failed_continues: u64,
}

fn run_case(c: &Compiled, seed: u64, i: u64, h: u64, max_ops: usize) -> Result<(Outcome, Vec<String>, Vec<Rec>), String> {
    let mut rng = Rng::derive(seed, "C11-hist", i * 10 + h);
    let host = HostCfg {
        // a third of the histories run without an error handler: a story error then makes the continue return Err
        handler: h % 3 != 2,
        fallbacks: true,
        fuel: Some(30_000),
        seed: Some(8),
        bind: c.info.externals.keys().map(|k| (k.clone(), h % 2 == 0)).collect(),
        observe: vec![],
    };
    let mut p = Player::new(c.json.clone(), c.info.clone(), host)?;
    // model of the registrations: var -> observers
    let mut reg: BTreeMap<String, BTreeSet<usize>> = BTreeMap::new();
    let mut out = Outcome { diff: None, continues: 0, changed_vars: 0, notifications: 0, unchanged_notified: 0, sliced: 0, failed_continues: 0 };
    let mut ops_log: Vec<String> = Vec::new();
    let globals = c.info.globals.clone();
    // initial registrations
    for id in 0..N_OBS {
        for _ in 0..1 + rng.below(2) {
            if globals.is_empty() {
                break;
            }
            let g = rng.pick(&globals).clone();
            if reg.entry(g.clone()).or_default().insert(id) {
                let r = p.apply(&Op::Observe(id, g.clone()));
                ops_log.push(r.op.clone());
                if r.res.is_err() {
                    out.diff = Some(("observe-refused".into(), r.to_json()));
                    return Ok((out, ops_log, p.recs.clone()));
                }
            }
        }
    }
    macro_rules! fail {
        ($sig:expr, $detail:expr) => {{
            out.diff = Some(($sig.to_string(), $detail));
            return Ok((out, ops_log, p.recs.clone()));
        }};
    }
    let mut steps = 0;
    let has_probe = c.info.knots.iter().any(|k| k == "kprobe");
    let mut recoveries = 0;
    let mut last_failed = false;
    while steps < max_ops {
        steps += 1;
        let can = p.story.can_continue();
        let nchoices = p.story.get_current_choices().len();
        let roll = rng.below(20);
        if roll == 0 && !globals.is_empty() {
            // host assignment between continues: immediate, once, to every observer of that variable
            let g = rng.pick(&globals).clone();
            let newv = match p.story.get_variable(&g) {
                Some(ValueType::Int(x)) => Val::Int(if rng.chance(1, 3) { x } else { rng.below(9) as i32 }),
                Some(ValueType::Bool(b)) => Val::Bool(if rng.chance(1, 3) { b } else { !b }),
                Some(ValueType::String(_)) => Val::Str(format!("h{}", rng.below(5))),
                _ => continue,
            };
            let r = p.apply(&Op::SetVar(g.clone(), newv.clone()));
            ops_log.push(r.op.clone());
            let want: BTreeSet<usize> = reg.get(&g).cloned().unwrap_or_default();
            let got: Vec<(usize, String, String)> = r.events.iter().filter_map(|e| parse_obs(e)).collect();
            let got_ids: Vec<usize> = got.iter().map(|g| g.0).collect();
            let ok = got.len() == want.len() && want.iter().all(|w| got_ids.iter().filter(|x| *x == w).count() == 1) && got.iter().all(|(_, v, val)| *v == g && *val == newv.show());
            if !ok {
                fail!("host-assignment/notifications", json!({"variable": g, "value": newv.show(), "registered_observers": want, "events": r.events}));
            }
            continue;
        }
        if roll == 1 && !globals.is_empty() {
            let id = rng.below(N_OBS);
            let g = rng.pick(&globals).clone();
            if reg.entry(g.clone()).or_default().insert(id) {
                let r = p.apply(&Op::Observe(id, g));
                ops_log.push(r.op.clone());
            }
            continue;
        }
        if roll == 2 {
            let id = rng.below(N_OBS);
            let var = if rng.chance(1, 2) { None } else { globals.get(rng.below(globals.len().max(1))).cloned() };
            let r = p.apply(&Op::Unobserve(id, var.clone()));
            ops_log.push(r.op.clone());
            if r.res.is_err() {
                fail!("remove-observer/refused", r.to_json());
            }
            match var {
                None => {
                    for s in reg.values_mut() {
                        s.remove(&id);
                    }
                }
                Some(v) => {
                    if let Some(s) = reg.get_mut(&v) {
                        s.remove(&id);
                    }
                }
            }
            continue;
        }
        if roll == 4 && steps > 6 && has_probe && !p.story.has_error() && rng.chance(1, 2) {
            // provoke a story error: the probe knot prints one line and falls off the end
            let r = p.apply(&Op::ChoosePath("kprobe".into(), false));
            ops_log.push(r.op.clone());
            continue;
        }
        if roll == 3 && steps > 4 {
            let op = if rng.chance(1, 2) { Op::Reset } else { Op::SaveLoadSame };
            if matches!(op, Op::SaveLoadSame) && p.story.has_error() {
                continue;
            }
            let r = p.apply(&op);
            ops_log.push(r.op.clone());
            continue; // registrations must survive: the model is unchanged
        }
        if can {
            // one outermost continue, blocking or sliced
            let before = poll(&p);
            let mut events: Vec<String> = Vec::new();
            let sliced = rng.chance(1, 3);
            let failed;
            if sliced {
                out.sliced += 1;
                let mut guard = 0;
                loop {
                    let b = 1 + rng.below(9) as u64;
                    let r = p.apply(&Op::ContAsync(b));
                    events.extend(r.events.clone());
                    guard += 1;
                    let paused = matches!(&r.res, Ok(s) if s == "paused");
                    if paused && !r.events.iter().all(|e| !e.starts_with("obs#")) {
                        fail!("notification-before-the-continue-completed", json!({"events": r.events}));
                    }
                    if !paused || guard > 3000 {
                        failed = r.res.is_err();
                        break;
                    }
                }
                ops_log.push("Cont(sliced)".into());
            } else {
                let r = p.apply(&Op::Cont);
                events = r.events.clone();
                failed = r.res.is_err();
                ops_log.push(r.op.clone());
            }
            out.continues += 1;
            last_failed = failed;
            if failed {
                out.failed_continues += 1;
            }
            if p.fuel_hit {
                break;
            }
            let after = poll(&p);
            // order: every notification after every external call of this continue
            let last_ext = events.iter().rposition(|e| e.starts_with("ext"));
            let first_obs = events.iter().position(|e| e.starts_with("obs#"));
            if let (Some(le), Some(fo)) = (last_ext, first_obs)
                && fo < le
            {
                fail!("notification-before-the-work-was-done", json!({"events": events}));
            }
            let notes: Vec<(usize, String, String)> = events.iter().filter_map(|e| parse_obs(e)).collect();
            out.notifications += notes.len() as u64;
            // no (observer, variable) twice; value = value when the continue returned; only registered observers
            let mut seen: BTreeSet<(usize, String)> = BTreeSet::new();
            for (id, var, val) in notes.iter() {
                if !seen.insert((*id, var.clone())) {
                    fail!("notified-twice-in-one-continue", json!({"observer": id, "variable": var, "events": events}));
                }
                if !reg.get(var).map(|s| s.contains(id)).unwrap_or(false) {
                    fail!("removed-or-unregistered-observer-notified", json!({"observer": id, "variable": var, "registered": reg.get(var), "events": events}));
                }
                if after.get(var) != Some(val) {
                    fail!("notified-value-is-not-the-value-at-return", json!({"observer": id, "variable": var, "notified": val, "polled_after": after.get(var), "polled_before": before.get(var), "events": events}));
                }
            }
            // every changed observed variable: exactly one notification per registered observer
            for (var, obs) in reg.iter() {
                let changed = before.get(var) != after.get(var);
                if changed {
                    out.changed_vars += 1;
                }
                for id in obs {
                    let n = notes.iter().filter(|(i, v, _)| i == id && v == var).count();
                    if changed && n != 1 && !failed {
                        fail!("changed-variable-not-notified-once", json!({"observer": id, "variable": var, "before": before.get(var), "after": after.get(var), "notifications": n, "sliced": sliced, "events": events}));
                    }
                    if !changed && n == 1 {
                        out.unchanged_notified += 1;
                    }
                }
            }
        } else if nchoices > 0 {
            let r = p.apply(&Op::Choose(rng.below(nchoices)));
            ops_log.push(r.op.clone());
            if !r.events.iter().all(|e| !e.starts_with("obs#")) {
                fail!("notification-outside-a-continue", json!({"events": r.events}));
            }
        } else if recoveries < 2 && (p.story.has_error() || last_failed) {
            // the host recovers from a story error with a reset and plays on: registrations must keep working
            recoveries += 1;
            let r = p.apply(&Op::Reset);
            ops_log.push(r.op.clone());
            last_failed = false;
        } else {
            break;
        }
    }
    Ok((out, ops_log, p.recs.clone()))
}

pub fn run(cfg: &Cfg) -> i32 {
    let mut rep = Report::new(
        cfg,
        "exploration",
        "case = (program with assignments before, between and after line ends, in functions, tunnels, threads and choice bodies; seeded history with 4 observers registered on overlapping sets of globals, added and removed (by name and with None) at arbitrary points, host assignments, resets, same-instance loads, and a third of the continues sliced into continue_async calls by the virtual clock). Every outermost continue is bracketed by polling all globals. Monitored over the callback log: a changed observed variable is notified exactly once to each registered observer, no (observer, variable) twice per continue, the notified value is the polled value at return (so look-ahead values never leak), only registered observers are called, every notification comes after the last external call of that continue and never from an unfinished slice or a choose call; a host assignment notifies each observer of that variable exactly once, immediately, with the assigned value; registrations survive reset and load; removals never fail. Non-trivial = histories with >= 1 observed change; distinct by (program, history).",
        cfg.pick(1500, 300000),
    );
    let nprog = cfg.get_u64("programs", cfg.pick(1500, 300000));
    let mut gc = GenCfg::rich();
    gc.externals = true;
    gc.thread_boost = true;
    gc.probe_knot = true;
    gc.identity_then_change = true;
    let mut sampled = 0;
    for i in 0..nprog {
        if !cfg.mine(i) {
            continue;
        }
        let c = match generated(cfg.seed, "C11", i, &gc) {
            GenOutcome::Ok(c) => c,
            _ => {
                rep.inconclusive("generated-program-did-not-compile");
                continue;
            }
        };
        for h in 0..cfg.pick(3, 6) as u64 {
            let r = std::panic::catch_unwind(std::panic::AssertUnwindSafe(|| run_case(&c, cfg.seed, i, h, cfg.pick(50, 90))));
            match r {
                Err(_) => {
                    rep.panic_caught("observers", json!({"program": c.name, "source": c.src, "history_variant": h}));
                }
                Ok(Err(_)) => rep.inconclusive("story-did-not-load"),
                Ok(Ok((o, ops, recs))) => {
                    rep.case(if o.changed_vars > 0 { Some(fnv(&format!("{}|{h}", c.name))) } else { None });
                    rep.count_n("continues-bracketed-by-polling", o.continues);
                    rep.count_n("sliced-continues", o.sliced);
                    rep.count_n("continues-that-returned-an-error (then reset and played on)", o.failed_continues);
                    rep.count_n("observed-changes", o.changed_vars);
                    rep.count_n("notifications-checked", o.notifications);
                    rep.count_n("notified-although-value-unchanged(allowed)", o.unchanged_notified);
                    if let Some((sig, detail)) = o.diff {
                        rep.violation(
                            &format!("observers/{sig}"),
                            json!({"program": c.name, "source": c.src, "history": ops, "detail": detail, "log_tail": recs_json(&recs[recs.len().saturating_sub(5)..])}),
                        );
                    } else if sampled < 3 && o.changed_vars > 3 {
                        sampled += 1;
                        rep.sample(json!({"program": c.name, "source": c.src.as_ref().map(|s| truncate(s, 1000)), "history": ops, "observed_changes": o.changed_vars, "notifications": o.notifications}));
                    }
                }
            }
        }
    }
    rep.finish()
}

//! Run configuration, evidence writer, known findings, verdict bookkeeping.
use serde_json::{Value, json};
use std::collections::{BTreeMap, BTreeSet};
use std::time::Instant;

#[derive(Clone, Debug)]
pub struct Cfg {
    pub prop: String,
    pub tier: String,
    pub seed: u64,
    pub out: Option<String>,
    pub replay: Option<String>,
    pub verif_dir: String,
    pub repo_dir: String,
    pub extra: BTreeMap<String, String>,
    pub start: Instant,
}

impl Cfg {
    pub fn quick(&self) -> bool {
        self.tier != "thorough"
    }
    pub fn pick<T: Copy>(&self, quick: T, thorough: T) -> T {
        if self.quick() { quick } else { thorough }
    }
    pub fn get(&self, k: &str) -> Option<&str> {
        self.extra.get(k).map(|s| s.as_str())
    }
    pub fn get_u64(&self, k: &str, default: u64) -> u64 {
        self.get(k).and_then(|s| s.parse().ok()).unwrap_or(default)
    }
    /// sharding: does case/program number `i` belong to this process?
    pub fn mine(&self, i: u64) -> bool {
        let of = self.get_u64("of", 1).max(1);
        i % of == self.get_u64("shard", 0)
    }
    pub fn corpus_dir(&self) -> String {
        format!("{}/conformance-tests/inkfiles", self.repo_dir)
    }
}

pub fn parse_args(args: &[String]) -> Cfg {
    let mut cfg = Cfg {
        prop: args.first().cloned().unwrap_or_default(),
        tier: std::env::var("VERIF_TIER").unwrap_or_else(|_| "quick".into()),
        seed: std::env::var("VERIF_SEED")
            .ok()
            .and_then(|s| s.parse().ok())
            .unwrap_or(1),
        out: None,
        replay: None,
        verif_dir: std::env::var("VERIF_DIR").unwrap_or_else(|_| "/verif".into()),
        repo_dir: std::env::var("VERIF_REPO").unwrap_or_else(|_| "/repo".into()),
        extra: BTreeMap::new(),
        start: Instant::now(),
    };
    let mut i = 1;
    while i < args.len() {
        let a = &args[i];
        let val = args.get(i + 1).cloned().unwrap_or_default();
        match a.as_str() {
            "--tier" => {
                cfg.tier = val;
                i += 1;
            }
            "--seed" => {
                cfg.seed = val.parse().unwrap_or(1);
                i += 1;
            }
            "--out" => {
                cfg.out = Some(val);
                i += 1;
            }
            "--replay" => {
                cfg.replay = Some(val);
                i += 1;
            }
            _ if a.starts_with("--") => {
                cfg.extra.insert(a[2..].to_string(), val);
                i += 1;
            }
            _ => {}
        }
        i += 1;
    }
    cfg
}

#[derive(Clone, Debug)]
pub struct Finding {
    pub property: String,
    pub signature: String,
    pub what: String,
}

pub struct Known {
    pub findings: Vec<Finding>,
}

impl Known {
    pub fn load(cfg: &Cfg) -> Known {
        let path = format!("{}/known_findings.json", cfg.verif_dir);
        let mut findings = Vec::new();
        if let Ok(s) = std::fs::read_to_string(&path)
            && let Ok(v) = serde_json::from_str::<Value>(&s)
            && let Some(arr) = v.get("findings").and_then(|f| f.as_array())
        {
            for f in arr {
                findings.push(Finding {
                    property: f["property"].as_str().unwrap_or("").to_string(),
                    signature: f["signature"].as_str().unwrap_or("").to_string(),
                    what: f["what"].as_str().unwrap_or("").to_string(),
                });
            }
        }
        Known { findings }
    }
    pub fn lookup(&self, prop: &str, sig: &str) -> Option<&Finding> {
        self.findings
            .iter()
            .find(|f| f.property == prop && f.signature == sig)
    }
}

/// Collects the verdicts of one run and writes evidence.
pub struct Report {
    pub cfg: Cfg,
    pub known: Known,
    pub level: String,
    pub evaluations: u64,
    pub distinct: BTreeSet<u64>,
    pub rule: String,
    pub samples: Vec<Value>,
    pub max_samples: usize,
    pub extra: serde_json::Map<String, Value>,
    pub hist: BTreeMap<String, u64>,
    pub inconclusive: BTreeMap<String, u64>,
    pub violations: Vec<(String, String)>, // (signature, replay path)
    pub known_hit: BTreeMap<String, u64>,
    pub assumptions: Vec<String>,
    pub exhaustive: Option<bool>,
    pub floor: u64,
    pub replay_seq: u64,
    pub harness_errors: Vec<String>,
    pub journal: Option<std::fs::File>,
}

impl Report {
    /// crash journal: the case about to be executed (flushed before it runs, so that a worker that
    /// aborts or overflows its stack can be attributed to its last started case)
    pub fn journal_start(&mut self, case: &str) {
        use std::io::Write;
        if let Some(f) = self.journal.as_mut() {
            let _ = writeln!(f, "START {case}");
            let _ = f.flush();
        }
    }
    pub fn journal_end(&mut self, case: &str) {
        use std::io::Write;
        if let Some(f) = self.journal.as_mut() {
            let _ = writeln!(f, "END {case}");
            let _ = f.flush();
        }
    }
    pub fn new(cfg: &Cfg, level: &str, rule: &str, floor: u64) -> Report {
        Report {
            cfg: cfg.clone(),
            known: Known::load(cfg),
            level: level.to_string(),
            evaluations: 0,
            distinct: BTreeSet::new(),
            rule: rule.to_string(),
            samples: Vec::new(),
            max_samples: 4,
            extra: serde_json::Map::new(),
            hist: BTreeMap::new(),
            inconclusive: BTreeMap::new(),
            violations: Vec::new(),
            known_hit: BTreeMap::new(),
            assumptions: Vec::new(),
            exhaustive: None,
            floor,
            replay_seq: 0,
            harness_errors: Vec::new(),
            journal: cfg.get("journal").and_then(|p| std::fs::File::create(p).ok()),
        }
    }
    pub fn count(&mut self, key: &str) {
        *self.hist.entry(key.to_string()).or_insert(0) += 1;
    }
    pub fn count_n(&mut self, key: &str, n: u64) {
        *self.hist.entry(key.to_string()).or_insert(0) += n;
    }
    pub fn inconclusive(&mut self, why: &str) {
        *self.inconclusive.entry(why.to_string()).or_insert(0) += 1;
    }
    /// one executed case; `nontrivial_hash` = Some(hash of the case) if it is non-trivial by the rule
    pub fn case(&mut self, nontrivial_hash: Option<u64>) {
        self.evaluations += 1;
        if let Some(h) = nontrivial_hash {
            self.distinct.insert(h);
        }
    }
    pub fn sample(&mut self, v: Value) {
        if self.samples.len() < self.max_samples {
            self.samples.push(v);
        }
    }
    /// A violation with its signature and witness. Returns true the first time a signature that is
    /// not a known finding is seen.
    pub fn violation(&mut self, signature: &str, witness: Value) -> bool {
        let prop = self.cfg.prop.clone();
        if let Some(f) = self.known.lookup(&prop, signature) {
            let first = !self.known_hit.contains_key(signature);
            *self.known_hit.entry(signature.to_string()).or_insert(0) += 1;
            if first {
                println!("KNOWN-FINDING: property={} {} [{}]", prop, f.what, signature);
            }
            return false;
        }
        // dedupe by signature: only first witness written
        if self.violations.iter().any(|(s, _)| s == signature) {
            return false;
        }
        self.replay_seq += 1;
        let dir = format!("{}/replays", self.cfg.verif_dir);
        let _ = std::fs::create_dir_all(&dir);
        let shard = match self.cfg.get("shard") {
            Some(k) => format!("k{k}-"),
            None => String::new(),
        };
        let path = format!(
            "{}/{}-{}-s{}-{}{}.json",
            dir, prop, self.cfg.tier, self.cfg.seed, shard, self.replay_seq
        );
        let doc = json!({"property": prop, "signature": signature, "tier": self.cfg.tier, "seed": self.cfg.seed, "witness": witness});
        let _ = std::fs::write(&path, serde_json::to_string_pretty(&doc).unwrap());
        println!("VIOLATION property={} replay={}", prop, path);
        println!("  signature: {}", signature);
        self.violations.push((signature.to_string(), path));
        true
    }
    pub fn harness_error(&mut self, msg: &str) {
        if self.harness_errors.len() < 20 {
            self.harness_errors.push(msg.to_string());
        }
    }
    pub fn coverage(&self) -> Value {
        let mut cov = serde_json::Map::new();
        cov.insert("evaluations".into(), json!(self.evaluations));
        cov.insert("distinct_nontrivial".into(), json!(self.distinct.len()));
        cov.insert("rule".into(), json!(self.rule));
        cov.insert("samples".into(), Value::Array(self.samples.clone()));
        if let Some(e) = self.exhaustive {
            cov.insert("exhaustive".into(), json!(e));
        }
        cov.insert("observation_floor".into(), json!(self.floor));
        cov.insert("observed".into(), json!(self.hist));
        cov.insert("inconclusive".into(), json!(self.inconclusive));
        cov.insert("known_findings_matched".into(), json!(self.known_hit));
        cov.insert(
            "violation_signatures".into(),
            json!(self.violations.iter().map(|v| v.0.clone()).collect::<Vec<_>>()),
        );
        if !self.harness_errors.is_empty() {
            cov.insert("harness_errors".into(), json!(self.harness_errors));
        }
        for (k, v) in self.extra.iter() {
            cov.insert(k.clone(), v.clone());
        }
        Value::Object(cov)
    }
    /// Writes the evidence (or a partial file when --out is given) and returns the exit code.
    pub fn finish(&mut self) -> i32 {
        let wall = self.cfg.start.elapsed().as_secs_f64();
        let ev = json!({
            "property_id": self.cfg.prop,
            "tier": if self.cfg.quick() {"quick"} else {"thorough"},
            "seed": self.cfg.seed,
            "level": self.level,
            "coverage": self.coverage(),
            "assumptions": self.assumptions,
            "wall_s": (wall * 100.0).round() / 100.0,
            "violations": self.violations.len(),
        });
        let path = self
            .cfg
            .out
            .clone()
            .unwrap_or_else(|| format!("{}/evidence/{}.json", self.cfg.verif_dir, self.cfg.prop));
        if let Some(parent) = std::path::Path::new(&path).parent() {
            let _ = std::fs::create_dir_all(parent);
        }
        let _ = std::fs::write(&path, serde_json::to_string_pretty(&ev).unwrap());
        let distinct = self.distinct.len() as u64;
        println!(
            "SUMMARY property={} tier={} seed={} evaluations={} distinct_nontrivial={} violations={} known={} inconclusive={} wall_s={:.1}",
            self.cfg.prop,
            self.cfg.tier,
            self.cfg.seed,
            self.evaluations,
            distinct,
            self.violations.len(),
            self.known_hit.len(),
            self.inconclusive.values().sum::<u64>(),
            wall
        );
        if !self.violations.is_empty() {
            return 1;
        }
        if !self.harness_errors.is_empty() {
            println!(
                "INCONCLUSIVE property={} harness errors: {:?}",
                self.cfg.prop, self.harness_errors
            );
            return 2;
        }
        if distinct < self.floor && self.cfg.get("of").is_none() {
            println!(
                "INCONCLUSIVE property={} observed only {} distinct non-trivial cases (floor {})",
                self.cfg.prop, distinct, self.floor
            );
            return 2;
        }
        0
    }
}

pub fn canon_json(v: &Value) -> Value {
    match v {
        Value::Object(m) => {
            let mut keys: Vec<&String> = m.keys().collect();
            keys.sort();
            let mut out = serde_json::Map::new();
            for k in keys {
                out.insert(k.clone(), canon_json(&m[k]));
            }
            Value::Object(out)
        }
        Value::Array(a) => Value::Array(a.iter().map(canon_json).collect()),
        _ => v.clone(),
    }
}

pub fn truncate(s: &str, n: usize) -> String {
    if s.len() <= n {
        s.to_string()
    } else {
        let mut end = n;
        while !s.is_char_boundary(end) {
            end -= 1;
        }
        format!("{}…(+{} bytes)", &s[..end], s.len() - end)
    }
}

thread_local! {
    static LAST_PANIC: std::cell::RefCell<Option<(String, String)>> = const { std::cell::RefCell::new(None) };
}

/// Records (location + innermost repository function, message) of every panic instead of printing it.
pub fn install_panic_hook() {
    std::panic::set_hook(Box::new(|info| {
        let mut loc = info.location().map(|l| format!("{}:{}", l.file(), l.line())).unwrap_or_default();
        let msg = info
            .payload()
            .downcast_ref::<String>()
            .cloned()
            .or_else(|| info.payload().downcast_ref::<&str>().map(|s| s.to_string()))
            .unwrap_or_default();
        // innermost frame that belongs to the repository's crates
        let bt = std::backtrace::Backtrace::force_capture().to_string();
        for line in bt.lines() {
            let l = line.trim();
            let sym = l.split_once(": ").map(|x| x.1).unwrap_or(l);
            if (sym.starts_with("bladeink::") || sym.starts_with("bladeink_compiler::") || sym.starts_with("rinklecate::") || sym.starts_with("<bladeink"))
                && !sym.contains("verif")
            {
                loc = format!("{loc} in {sym}");
                break;
            }
        }
        LAST_PANIC.with(|p| *p.borrow_mut() = Some((loc, msg)));
    }));
}

/// (location, message) of the most recent panic on this thread.
pub fn take_last_panic() -> Option<(String, String)> {
    LAST_PANIC.with(|p| p.borrow_mut().take())
}

/// true when the panic location is inside the repository under test (not in the harness / std)
pub fn panic_in_repo(loc: &str, repo_dir: &str) -> bool {
    loc.contains(" in bladeink") || loc.contains(" in <bladeink") || loc.contains(" in rinklecate") || loc.starts_with(repo_dir) || loc.starts_with("runtime/") || loc.starts_with("compiler/") || loc.starts_with("rinklecate/")
}

/// function-level identity of a panic site: innermost repository function + normalised message
pub fn panic_signature(loc: &str, msg: &str, repo_dir: &str) -> String {
    let place = match loc.split_once(" in ") {
        Some((_, sym)) => {
            // drop generic hashes and closure markers
            let s = sym.split("::h").next().unwrap_or(sym);
            s.replace("::{{closure}}", "").replace("<impl bladeink::story::Story>::", "Story::")
        }
        None => {
            let file = loc.rsplit_once(':').map(|x| x.0).unwrap_or(loc);
            file.strip_prefix(repo_dir).unwrap_or(file).trim_start_matches('/').to_string()
        }
    };
    // message kind only: what was unwrapped / which arithmetic, without the payload
    let mut m = msg.to_string();
    for cut in [" is not a char boundary", " value: ", ": \"", " but the index is", " is out of range", " (", ": '"] {
        if let Some(i) = m.find(cut) {
            m.truncate(i);
        }
    }
    let mut m: String = m.chars().map(|c| if c.is_ascii_digit() { '#' } else { c }).collect();
    while m.contains("##") {
        m = m.replace("##", "#");
    }
    format!("panic@{}#{}", place, truncate(&m, 60))
}

impl Report {
    /// A caught panic: a violation if it happened inside the repository's code, a harness error otherwise.
    pub fn panic_caught(&mut self, prefix: &str, mut witness: Value) -> bool {
        let (loc, msg) = take_last_panic().unwrap_or_default();
        let repo = self.cfg.repo_dir.clone();
        if let Some(o) = witness.as_object_mut() {
            o.insert("panic_location".into(), json!(loc));
            o.insert("panic_message".into(), json!(msg));
        }
        if panic_in_repo(&loc, &repo) {
            let sig = format!("{prefix}/{}", panic_signature(&loc, &msg, &repo));
            self.violation(&sig, witness)
        } else {
            self.harness_error(&format!("harness panic at {loc}: {msg}"));
            false
        }
    }
}

//! Sources of compiled stories for the monitors: generated programs and the corpus.
use crate::corpus;
use crate::r#gen::ast::Program;
use crate::r#gen::build::{GenCfg, Meta, generate};
use crate::r#gen::render;
use crate::rng::Rng;
use crate::storyinfo::StoryInfo;
use std::rc::Rc;

#[derive(Clone)]
pub struct Compiled {
    pub name: String,
    pub src: Option<String>,
    pub json: Rc<String>,
    pub info: Rc<StoryInfo>,
    pub ast: Option<Rc<Program>>,
    pub meta: Option<Rc<Meta>>,
}

pub enum GenOutcome {
    Ok(Compiled),
    CompileError(String, String),
    CompilePanic(String),
}

pub fn generated(seed: u64, tag: &str, i: u64, gc: &GenCfg) -> GenOutcome {
    let mut rng = Rng::derive(seed, tag, i);
    let (p, meta) = generate(gc, &mut rng);
    compile_ast(&format!("gen-{tag}-s{seed}-{i}"), p, meta)
}

pub fn compile_ast(name: &str, p: Program, meta: Meta) -> GenOutcome {
    let src = render::program(&p);
    match std::panic::catch_unwind(|| bladeink_compiler::Compiler::new().compile(&src)) {
        Err(_) => GenOutcome::CompilePanic(src),
        Ok(Err(e)) => GenOutcome::CompileError(src, e.to_string()),
        Ok(Ok(json)) => match StoryInfo::from_json_text(&json) {
            None => GenOutcome::CompileError(src, "compiler output is not readable JSON".into()),
            Some(info) => GenOutcome::Ok(Compiled {
                name: name.to_string(),
                src: Some(src),
                json: Rc::new(json),
                info: Rc::new(info),
                ast: Some(Rc::new(p)),
                meta: Some(Rc::new(meta)),
            }),
        },
    }
}

pub fn from_json(name: &str, json: String, src: Option<String>) -> Option<Compiled> {
    let info = StoryInfo::from_json_text(&json)?;
    Some(Compiled {
        name: name.to_string(),
        src,
        json: Rc::new(json),
        info: Rc::new(info),
        ast: None,
        meta: None,
    })
}

/// Corpus stories: reference-compiled JSON and (if `own`) the current compiler's output.
pub fn corpus_stories(corpus_dir: &str, reference: bool, own: bool, max_objects: usize) -> Vec<Compiled> {
    let mut out = Vec::new();
    for it in corpus::list(corpus_dir) {
        if reference
            && let Some(rp) = &it.ref_json_path
            && let Some(c) = from_json(&format!("ref:{}", it.name), corpus::read(rp), None)
            && c.info.objects <= max_objects
        {
            out.push(c);
        }
        if own
            && let Ok(Ok(j)) = std::panic::catch_unwind(|| corpus::compile_file(&it.ink_path))
            && let Some(c) = from_json(&format!("own:{}", it.name), j, Some(corpus::read(&it.ink_path)))
            && c.info.objects <= max_objects
        {
            out.push(c);
        }
    }
    out
}

//! Small developer commands: compile / play a source file.
use crate::player::{HostCfg, Op, Player};
use crate::storyinfo::StoryInfo;
use std::rc::Rc;

pub fn compile_cmd(args: &[String]) -> i32 {
    let src = std::fs::read_to_string(&args[1]).expect("read");
    // `inkmon compile file.ink nocount` = compile without count_all_visits
    let opts = bladeink_compiler::CompilerOptions { count_all_visits: args.get(2).map(|s| s.as_str()) != Some("nocount"), source_filename: None };
    match bladeink_compiler::Compiler::with_options(opts).compile(&src) {
        Ok(j) => {
            println!("{j}");
            0
        }
        Err(e) => {
            println!("COMPILE ERROR: {e}");
            1
        }
    }
}

/// inkmon play <file.ink|file.json> [choice indices...]
pub fn play_cmd(args: &[String]) -> i32 {
    let text = std::fs::read_to_string(&args[1]).expect("read");
    let json = if args[1].ends_with(".json") {
        text
    } else {
        match bladeink_compiler::Compiler::new().compile(&text) {
            Ok(j) => j,
            Err(e) => {
                println!("COMPILE ERROR: {e}");
                return 1;
            }
        }
    };
    let info = Rc::new(StoryInfo::from_json_text(&json).expect("json"));
    let host = HostCfg {
        fallbacks: true,
        seed: Some(1),
        bind: vec![],
        ..Default::default()
    };
    let mut p = match Player::new(Rc::new(json), info, host) {
        Ok(p) => p,
        Err(e) => {
            println!("LOAD ERROR: {e}");
            return 1;
        }
    };
    let choices: Vec<usize> = args[2..].iter().filter_map(|s| s.parse().ok()).collect();
    let mut ci = 0;
    loop {
        while p.story.can_continue() {
            let r = p.apply(&Op::Cont);
            match &r.res {
                Ok(t) => println!("LINE {:?} tags={:?}", t, r.snap.tags),
                Err(e) => {
                    println!("ERR {e:?}");
                    break;
                }
            }
            for e in r.events {
                println!("  EVENT {e}");
            }
            for w in r.snap.warnings {
                println!("  WARN {w}");
            }
        }
        let ch = p.snap().choices;
        if ch.is_empty() {
            break;
        }
        for (i, c) in ch.iter().enumerate() {
            println!("  [{i}] {:?} tags={:?}", c.0, c.1);
        }
        if ci >= choices.len() {
            break;
        }
        println!("> {}", choices[ci]);
        let r = p.apply(&Op::Choose(choices[ci]));
        if let Err(e) = r.res {
            println!("ERR {e:?}");
            break;
        }
        ci += 1;
    }
    println!("STATE {}", p.full_state().to_json());
    0
}

/// inkmon gen --seed N [--rich 1]: print a generated program
pub fn gen_cmd(cfg: &crate::util::Cfg) -> i32 {
    let gc = if cfg.get("rich").is_some() { crate::r#gen::build::GenCfg::rich() } else { crate::r#gen::build::GenCfg::core() };
    let mut rng = crate::rng::Rng::derive(cfg.seed, "gen", 0);
    let (p, _) = crate::r#gen::build::generate(&gc, &mut rng);
    print!("{}", crate::r#gen::render::program(&p));
    0
}

/// inkmon genprog --seed S --i I : the i-th program of genstats
pub fn genprog_cmd(cfg: &crate::util::Cfg) -> i32 {
    let gc = if cfg.get("rich").is_some() { crate::r#gen::build::GenCfg::rich() } else { crate::r#gen::build::GenCfg::core() };
    let mut rng = crate::rng::Rng::derive(cfg.seed, "gen", cfg.get_u64("i", 0));
    let (p, _) = crate::r#gen::build::generate(&gc, &mut rng);
    print!("{}", crate::r#gen::render::program(&p));
    0
}

/// inkmon genstats --n N: compile and play generated programs, report what fails
pub fn genstats_cmd(cfg: &crate::util::Cfg) -> i32 {
    use std::collections::BTreeMap;
    let gc = if cfg.get("rich").is_some() { crate::r#gen::build::GenCfg::rich() } else { crate::r#gen::build::GenCfg::core() };
    let n = cfg.get_u64("n", 200);
    let mut hist: BTreeMap<String, (u64, u64)> = BTreeMap::new();
    for i in 0..n {
        let mut rng = crate::rng::Rng::derive(cfg.seed, "gen", i);
        let (p, _) = crate::r#gen::build::generate(&gc, &mut rng);
        let src = crate::r#gen::render::program(&p);
        let res = std::panic::catch_unwind(|| bladeink_compiler::Compiler::new().compile(&src));
        let key = match res {
            Err(_) => "compile-panic".to_string(),
            Ok(Err(e)) => format!("compile-error: {}", crate::util::truncate(&e.to_string(), 90)),
            Ok(Ok(json)) => {
                let info = Rc::new(StoryInfo::from_json_text(&json).unwrap());
                let json = Rc::new(json);
                let host = HostCfg { fallbacks: true, seed: Some(1), bind: info.externals.keys().map(|k| (k.clone(), true)).collect(), ..Default::default() };
                let ec = crate::explore::ExploreCfg { max_depth: 6, max_paths: 40, max_lines_per_segment: 300 };
                match std::panic::catch_unwind(|| crate::explore::explore(&json, &info, &host, &ec)) {
                    Err(e) => format!("play-panic at path {:?}: {}", crate::explore::CURRENT_PATH.with(|c| c.borrow().clone()), e.downcast_ref::<String>().cloned().or_else(|| e.downcast_ref::<&str>().map(|s| s.to_string())).unwrap_or_default()),
                    Ok(Err(e)) => format!("play-harness: {e}"),
                    Ok(Ok((runs, _))) => {
                        let mut k = "ok".to_string();
                        for r in runs.iter() {
                            if r.fuel { k = "fuel".into(); }
                            for rec in r.recs.iter() {
                                if let Err((_, m)) = &rec.res {
                                    let m = m.split("The first issue was: ").last().unwrap_or(m);
                                    let m = m.split("): ").last().unwrap_or(m);
                                    k = format!("runtime-error: {}", crate::util::truncate(m, 80));
                                }
                                if let Some(w) = rec.snap.warnings.first() {
                                    let w = w.split("): ").last().unwrap_or(w);
                                    k = format!("runtime-warning: {}", crate::util::truncate(w, 80));
                                }
                            }
                        }
                        k
                    }
                }
            }
        };
        let e = hist.entry(key).or_insert((0, i));
        e.0 += 1;
    }
    for (k, (c, first)) in hist {
        println!("{c:5}  (first i={first})  {k}");
    }
    0
}

/// outcome class of exploring a source: used by `classify` and `minimize`
pub fn outcome_of(src: &str, depth: usize, paths: usize) -> String {
    let res = std::panic::catch_unwind(|| bladeink_compiler::Compiler::new().compile(src));
    match res {
        Err(_) => "compile-panic".to_string(),
        Ok(Err(e)) => format!("compile-error: {e}"),
        Ok(Ok(json)) => {
            let Some(info) = StoryInfo::from_json_text(&json) else { return "bad-json".into() };
            let info = Rc::new(info);
            let json = Rc::new(json);
            let host = HostCfg { fallbacks: true, seed: Some(1), bind: info.externals.keys().map(|k| (k.clone(), true)).collect(), ..Default::default() };
            let ec = crate::explore::ExploreCfg { max_depth: depth, max_paths: paths, max_lines_per_segment: 300 };
            match std::panic::catch_unwind(|| crate::explore::explore(&json, &info, &host, &ec)) {
                Err(e) => format!("play-panic: {}", e.downcast_ref::<String>().cloned().or_else(|| e.downcast_ref::<&str>().map(|s| s.to_string())).unwrap_or_default()),
                Ok(Err(e)) => format!("play-harness: {e}"),
                Ok(Ok((runs, _))) => {
                    let mut k = "ok".to_string();
                    for r in runs.iter() {
                        if r.fuel { k = "fuel".into(); }
                        for rec in r.recs.iter() {
                            if let Err((_, m)) = &rec.res {
                                k = format!("runtime-error at {:?}: {m}", r.choices);
                            }
                            if let Some(w) = rec.snap.warnings.first() {
                                k = format!("runtime-warning: {w}");
                            }
                        }
                    }
                    k
                }
            }
        }
    }
}

/// inkmon minimize <file.ink> --has <substring of outcome> : line-based delta debugging
pub fn minimize_cmd(args: &[String], cfg: &crate::util::Cfg) -> i32 {
    let src = std::fs::read_to_string(&args[1]).expect("read");
    let want = cfg.get("has").unwrap_or("panic").to_string();
    std::panic::set_hook(Box::new(|_| {}));
    let pred = |lines: &[String]| -> bool { outcome_of(&(lines.join("\n") + "\n"), 6, 60).contains(&want) };
    let mut lines: Vec<String> = src.lines().map(|s| s.to_string()).collect();
    if !pred(&lines) {
        println!("predicate does not hold on the input: {}", outcome_of(&src, 6, 60));
        return 1;
    }
    let mut chunk = lines.len() / 2;
    while chunk >= 1 {
        let mut i = 0;
        let mut changed = false;
        while i < lines.len() {
            let end = (i + chunk).min(lines.len());
            let mut cand = lines.clone();
            cand.drain(i..end);
            if !cand.is_empty() && pred(&cand) {
                lines = cand;
                changed = true;
            } else {
                i += chunk;
            }
        }
        if !changed || chunk == 1 {
            if chunk == 1 && !changed { break; }
            if chunk > 1 { chunk /= 2; }
        }
    }
    println!("{}", lines.join("\n"));
    eprintln!("outcome: {}", outcome_of(&(lines.join("\n") + "\n"), 6, 60));
    0
}

pub fn classify_cmd(args: &[String]) -> i32 {
    let src = std::fs::read_to_string(&args[1]).expect("read");
    std::panic::set_hook(Box::new(|_| {}));
    println!("{}", outcome_of(&src, 6, 60));
    0
}

/// inkmon loadjson <file>: Story::new on the file's text, prints the outcome
pub fn loadjson_cmd(args: &[String]) -> i32 {
    let text = std::fs::read_to_string(&args[1]).expect("read");
    match bladeink::story::Story::new(&text) {
        Ok(_) => println!("LOAD ok"),
        Err(e) => println!("LOAD err: {}", crate::util::truncate(&e.to_string(), 200)),
    }
    0
}

//! The conformance corpus: sources, reference JSON, compilation with includes.
use bladeink_compiler::{Compiler, CompilerError};
use std::path::{Path, PathBuf};

#[derive(Clone, Debug)]
pub struct CorpusItem {
    /// path relative to the corpus dir, without extension, e.g. "choices/one"
    pub name: String,
    pub ink_path: PathBuf,
    pub ref_json_path: Option<PathBuf>,
}

fn walk(dir: &Path, out: &mut Vec<PathBuf>) {
    if let Ok(rd) = std::fs::read_dir(dir) {
        let mut entries: Vec<PathBuf> = rd.filter_map(|e| e.ok().map(|e| e.path())).collect();
        entries.sort();
        for p in entries {
            if p.is_dir() {
                walk(&p, out);
            } else {
                out.push(p);
            }
        }
    }
}

pub fn list(corpus_dir: &str) -> Vec<CorpusItem> {
    let mut files = Vec::new();
    walk(Path::new(corpus_dir), &mut files);
    let mut items = Vec::new();
    for f in files.iter() {
        let s = f.to_string_lossy().to_string();
        if s.ends_with(".ink") {
            let j = PathBuf::from(format!("{s}.json"));
            let name = s[corpus_dir.len()..].trim_start_matches('/').trim_end_matches(".ink").to_string();
            items.push(CorpusItem {
                name,
                ink_path: f.clone(),
                ref_json_path: if j.exists() { Some(j) } else { None },
            });
        }
    }
    items
}

pub fn read(p: &Path) -> String {
    let s = std::fs::read_to_string(p).unwrap_or_default();
    s.strip_prefix('\u{feff}').unwrap_or(&s).to_string()
}

/// Compile a corpus source, resolving INCLUDEs relative to the source's directory.
pub fn compile_file(ink_path: &Path) -> Result<String, CompilerError> {
    let src = read(ink_path);
    let base = ink_path.parent().map(|p| p.to_path_buf()).unwrap_or_default();
    Compiler::new().compile_with_file_handler(&src, move |name| {
        let p = base.join(name);
        std::fs::read_to_string(&p).map_err(|e| CompilerError::invalid_source(format!("include {name}: {e}")))
    })
}

pub fn compile_str(src: &str) -> Result<String, CompilerError> {
    Compiler::new().compile(src)
}
